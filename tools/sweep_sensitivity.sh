#!/bin/bash
# For each patch in /verif/sensitivity (or those given): does the test-suite still pass with it, and does the
# property's quick check report it?  Results appended to /verif/sensitivity/RESULTS.txt
cd /verif
PATCHES="${@:-$(ls sensitivity/*.diff)}"
for p in $PATCHES; do
  name=$(basename $p .diff); prop=$(echo $name | cut -d- -f1 | tr a-z A-Z)
  WT=$(mktemp -d /tmp/senswt.XXXXXX); rmdir $WT
  git -C /repo worktree add -q --detach $WT HEAD
  git -C $WT apply /verif/$p || { echo "$name: patch does not apply"; git -C /repo worktree remove --force $WT; continue; }
  tests=$(cd $WT && PYTHONPATH=$WT /venv/bin/python -m pytest -q -p no:cacheprovider -n 12 --no-cov --timeout=900 -q 2>&1 | tail -1)
  git -C /repo worktree remove --force $WT; rm -rf $WT
  out=$(TAIL=40 /verif/tools/run_mutant.sh /verif/$p $prop ${RUNS:-} 2>&1)
  rc=$(echo "$out" | grep -o "mutant-check rc=[0-9]*" | tail -1)
  sig=$(echo "$out" | grep "signature:" | head -3 | sed 's/^ *//')
  echo "== $name | tests: $tests | $rc" | tee -a sensitivity/RESULTS.txt
  echo "$sig" | tee -a sensitivity/RESULTS.txt
done
