#!/bin/bash
# usage: confirm_seed.sh <patch.diff> <demo.py>  -- confirms in a scratch worktree that the demo passes on the
# unchanged tree, fails with the change, and that the test-suite still passes with the change.
PATCH=$(readlink -f "$1"); DEMO=$(readlink -f "$2")
WT=$(mktemp -d /tmp/confwt.XXXXXX); rmdir $WT
git -C /repo worktree add -q --detach $WT HEAD || exit 3
trap "git -C /repo worktree remove --force $WT 2>/dev/null; rm -rf $WT" EXIT
cd $WT
PYTHONPATH=$WT timeout 900 /venv/bin/python $DEMO $WT >/tmp/confirm_demo_clean.$$.log 2>&1; rc_clean=$?
git apply $PATCH || { echo "PATCH DOES NOT APPLY"; exit 3; }
PYTHONPATH=$WT timeout 900 /venv/bin/python $DEMO $WT >/tmp/confirm_demo_mut.$$.log 2>&1; rc_mut=$?
tests=$(PYTHONPATH=$WT /venv/bin/python -m pytest -q -p no:cacheprovider -n 12 --no-cov --timeout=900 -q 2>&1 | tail -1)
echo "demo on unchanged tree: exit $rc_clean; demo with change: exit $rc_mut; tests with change: $tests"
tail -5 /tmp/confirm_demo_mut.$$.log
