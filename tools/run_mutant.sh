#!/bin/bash
# usage: run_mutant.sh <patch.diff | -R:<commit>> <prop> [runs]   -- applies a change to a scratch worktree of /repo
# (outside /repo and /verif), runs the quick check of <prop> against it, removes the worktree.
set -u
PATCH="$1"; PROP="$2"; RUNS="${3:-}"
WT=$(mktemp -d /tmp/mutwt.XXXXXX)
rmdir "$WT"
git -C /repo worktree add -q --detach "$WT" HEAD || exit 3
cleanup() { git -C /repo worktree remove --force "$WT" 2>/dev/null; rm -rf "$WT" /tmp/mut-replays.$$; }
trap cleanup EXIT
if [[ "$PATCH" == -R:* ]]; then
  git -C "$WT" revert --no-commit "${PATCH#-R:}" || exit 3
else
  git -C "$WT" apply "$PATCH" || exit 3
fi
export VERIF_REPO="$WT" VSIM_REPLAY_DIR=/tmp/mut-replays.$$
[ -n "$RUNS" ] && export VSIM_RUNS="$RUNS"
cd /verif
/venv/bin/python vsim/main.py check "$PROP" --tier quick 2>&1 | grep -v "^WARNING conda" | tail -${TAIL:-12}
rc=${PIPESTATUS[0]}
git -C /verif checkout -q -- evidence 2>/dev/null
echo "mutant-check rc=$rc"
exit $rc
