#!/bin/bash
# Runs the quick check of the matching property against every change under /verif/seeded (or those named),
# each in its own scratch worktree; appends one block per change to /verif/seeded/RESULTS.txt
cd /verif
NAMES="${@:-$(ls -d seeded/*/ | xargs -n1 basename)}"
for n in $NAMES; do
  prop=$(echo $n | cut -d- -f1)
  out=$(TAIL=60 /verif/tools/run_mutant.sh /verif/seeded/$n/patch.diff $prop 2>&1)
  rc=$(echo "$out" | grep -o "mutant-check rc=[0-9]*" | tail -1)
  summary=$(echo "$out" | grep -E "^$prop quick:" | tail -1)
  sigs=$(echo "$out" | grep "signature:" | head -4 | sed 's/^ *signature: //')
  { echo "== $n | $rc | $summary"; echo "$sigs"; } | tee -a seeded/RESULTS.txt
done
