#!/bin/bash
# usage: multiseed.sh "<props>" "<seeds>"  -- quick check of each property under several VERIF_SEED values;
# prints one summary line per (property, seed) plus any VIOLATION / HARNESS lines. Evidence files are restored afterwards.
cd "$(dirname "$0")/.."
export VSIM_REPLAY_DIR=${VSIM_REPLAY_DIR:-/tmp/multiseed-replays}
for p in $1; do for s in $2; do
  out=$(VERIF_SEED=$s /venv/bin/python vsim/main.py check $p --tier ${TIER:-quick} 2>&1)
  echo "$out" | grep -E "VIOLATION|signature:|HARNESS" | head -12
  echo "seed=$s $(echo "$out" | grep -E "^$p (quick|thorough):")"
done; done
git checkout -q -- evidence 2>/dev/null
