"""Operations of C08 histories, run inside the long-lived subject or a fresh oracle process."""
from __future__ import annotations

import gc
import json
import os
from pathlib import Path

from vsim import ops, procs


def _objs() -> dict:
    return procs.SUBJECT_STATE.setdefault("objs", {})


def _residue(linter) -> list[str]:
    """Which stateful slots are non-empty (coverage accounting only, never an oracle)."""
    out = []
    try:
        orch = _orch(linter)
        for rule in orch.registry.list_all():
            n = type(rule).__name__
            if getattr(rule, "_storage", None) is not None:
                out.append(f"{n}._storage")
            if getattr(rule, "_file_contents", None):
                out.append(f"{n}._file_contents")
            if getattr(rule, "_linter_cache", None):
                out.append(f"{n}._linter_cache")
        import src.linter_config.ignore as ig
        if getattr(ig, "_CACHED_PROJECT_ROOT", None) not in (None, orch.project_root):
            out.append("singleton-root-differs")
        if len(getattr(orch.ignore_parser, "_ignore_cache", {})) > 0:
            out.append("ignore_cache")
    except Exception as e:  # accounting must never fail a run
        out.append(f"residue-error:{type(e).__name__}")
    return sorted(set(out))


def build(ctor: str | None, root: str, as_str: bool | None):
    """Construct the long-lived object the way the history says (Linter or bare Orchestrator)."""
    from src.api import Linter
    r = root if as_str else Path(root)
    if ctor == "linter_cfg":
        return Linter(config_file=str(Path(root) / ".thailint.yaml"), project_root=r)
    if ctor in ("orch", "orch_cfg"):
        from src.orchestrator.core import Orchestrator
        if ctor == "orch_cfg":
            from src.linter_config.loader import LinterConfigLoader
            return Orchestrator(project_root=Path(root), config=LinterConfigLoader().load(Path(root) / ".thailint.yaml"))
        return Orchestrator(project_root=Path(root))
    return Linter(project_root=r)


def _orch(obj):
    return getattr(obj, "orchestrator", obj)


def _do_lint(linter, op: dict) -> dict:
    api = op["api"]
    paths = op["paths"]
    if api == "linter":
        p = paths[0]
        if op.get("rules"):
            vs = linter.lint(p if op.get("as_str") else Path(p), rules=list(op["rules"]))
        else:
            vs = linter.lint(p if op.get("as_str") else Path(p))
    elif api == "orch_files":
        vs = _orch(linter).lint_files([Path(p) for p in paths])
    elif api == "orch_dir":
        vs = _orch(linter).lint_directory(Path(paths[0]), recursive=op.get("recursive", True))
    elif api == "orch_files_par":
        vs = _orch(linter).lint_files_parallel([Path(p) for p in paths], max_workers=op.get("W"))
    elif api == "orch_dir_par":
        vs = _orch(linter).lint_directory_parallel(Path(paths[0]), recursive=op.get("recursive", True),
                                                   max_workers=op.get("W"))
    else:
        raise ValueError(api)
    return {"violations": [ops.vtuple(v) for v in vs], "exit": None}


def _do_cli(op: dict) -> dict:
    from click.testing import CliRunner

    from src.cli import cli
    argv = [op["cmd"], "--format", "json"] + (["--parallel"] if op.get("parallel") else []) + \
           ([] if op.get("recursive", True) else ["--no-recursive"]) + list(op["paths"])
    res = CliRunner().invoke(cli, argv, catch_exceptions=True)
    exc = None
    if res.exception is not None and not isinstance(res.exception, SystemExit):
        exc = f"{type(res.exception).__name__}: {res.exception}"
    try:
        doc = json.loads(res.stdout)
        vs = [[d.get("rule_id"), d.get("file_path"), d.get("line"), d.get("column"), d.get("message"),
               d.get("severity"), None] for d in doc["violations"]]
    except Exception:
        vs = [["cli-output", line, 0, 0, "", "", None] for line in res.stdout.splitlines()]
    out = {"violations": vs, "exit": res.exit_code, "cli_exc": exc}
    del res
    gc.collect()
    return out


def s_new(arg: dict) -> dict:
    ops.enter(arg["env"])
    _objs()[arg["name"]] = build(arg.get("ctor"), arg["root"], arg.get("as_str"))
    return {"ok": True}


def s_drop(arg: dict) -> dict:
    ops.enter(arg["env"])
    _objs().pop(arg["name"], None)
    gc.collect()
    return {"ok": True}


def s_lint(arg: dict) -> dict:
    """Lint inside the subject with the named long-lived object (or the in-process CLI)."""
    ctx = ops.enter(arg["env"])
    op = arg["op"]
    if op["api"] == "cli":
        out = _do_cli(op)
        out["residue"] = []
    else:
        linter = _objs()[op["obj"]]
        res = _residue(linter)
        out = _do_lint(linter, op)
        out["residue"] = res
    if arg.get("repeat"):
        again = _do_cli(op) if op["api"] == "cli" else _do_lint(_objs()[op["obj"]], op)
        out["repeat"] = again["violations"]
    return ops._finish(ctx, out)


def o_lint(arg: dict) -> dict:
    """The same call on a fresh object in a fresh process (the oracle).

    With arg['prime_cwd'] the object is built and its rules discovered while the process is in
    that directory, and only then moved to the current one: the diagnostic that attributes a
    used/fresh difference to the working directory at rule-construction time.
    """
    env = dict(arg["env"])
    op = arg["op"]
    prime = arg.get("prime_cwd")
    if prime:
        env["cwd"] = prime
    ctx = ops.enter(env)
    if op["api"] == "cli":
        if prime:
            os.chdir(arg["env"]["cwd"])
        return ops._finish(ctx, _do_cli(op))
    linter = build(arg.get("ctor"), arg["root"], arg.get("as_str"))
    if prime:
        ensure = getattr(_orch(linter), "_ensure_rules_discovered", None)
        if ensure is not None:
            ensure()
        os.chdir(arg["env"]["cwd"])
    out = _do_lint(linter, op)
    del linter
    gc.collect()
    return ops._finish(ctx, out)
