"""Process images (DESIGN 2.5): driver -> zygote -> {fresh oracle, subject} -> sim workers.

The zygote is forked from the batch interpreter at the very top of its main (shallow stack,
no try/finally above it), imports src + the property modules, installs the seams and then
never executes lint code itself. Every simulated process is forked from it, so 'fresh' means
a fresh process image, and a child may leave through real interpreter finalisation
(sys.exit) exactly like a real CLI process does.
"""
from __future__ import annotations

import importlib
import os
import pickle
import select
import signal
import struct
import sys
import time
import traceback


def _send(fd, obj):
    data = pickle.dumps(obj, protocol=4)
    data = struct.pack(">Q", len(data)) + data
    view = memoryview(data)
    while view:
        n = os.write(fd, view)
        view = view[n:]


def _read_exact(fd, n, deadline):
    buf = bytearray()
    while len(buf) < n:
        if deadline is not None:
            left = deadline - time.monotonic()
            if left <= 0:
                raise TimeoutError
            r, _, _ = select.select([fd], [], [], left)
            if not r:
                raise TimeoutError
        chunk = os.read(fd, min(1 << 20, n - len(buf)))
        if not chunk:
            raise EOFError
        buf += chunk
    return bytes(buf)


def _recv(fd, timeout=None):
    deadline = None if timeout is None else time.monotonic() + timeout
    (n,) = struct.unpack(">Q", _read_exact(fd, 8, deadline))
    return pickle.loads(_read_exact(fd, n, deadline))


def resolve(name: str):
    mod, _, attr = name.partition(":")
    return getattr(importlib.import_module(mod), attr)


def _status(st):
    if os.WIFSIGNALED(st):
        return {"signal": os.WTERMSIG(st)}
    return {"exit": os.WEXITSTATUS(st)}


def _wait(pid, timeout=30.0):
    deadline = time.monotonic() + timeout
    while True:
        p, st = os.waitpid(pid, os.WNOHANG)
        if p == pid:
            return _status(st)
        if time.monotonic() > deadline:
            try:
                os.kill(pid, signal.SIGKILL)
            except ProcessLookupError:
                pass
            _, st = os.waitpid(pid, 0)
            d = _status(st)
            d["exit_timeout"] = True
            return d
        time.sleep(0.0005)


def stack_path(pid: int) -> str:
    from vsim.world import scratch_base
    return str(scratch_base() / f"vsim-stack-{pid}.txt")


def arm_stack_dump() -> None:
    """In a simulated process: SIGUSR1 dumps the Python stack (works inside C calls such as re) to a file."""
    import faulthandler
    try:
        f = open(stack_path(os.getpid()), "w")
        faulthandler.register(signal.SIGUSR1, file=f, all_threads=False)
        SUBJECT_STATE["_stack_file"] = f     # keep the file object alive
    except Exception:
        pass


def _stack_of(pid: int) -> str:
    """Ask a (hung) child where it is; returns the faulthandler dump, most recent call first."""
    path = stack_path(pid)
    try:
        os.kill(pid, signal.SIGUSR1)
        time.sleep(0.4)
        with open(path) as f:
            txt = f.read()
    except (OSError, ProcessLookupError):
        txt = ""
    try:
        os.unlink(path)
    except OSError:
        pass
    return txt[-3000:]


def _run(fn_name, arg):
    try:
        return {"ok": True, "value": resolve(fn_name)(arg)}
    except BaseException as e:  # noqa: BLE001 - reported to the driver, which classifies it
        return {"ok": False, "kind": "exception", "exc_type": type(e).__name__, "exc": str(e)[:2000],
                "tb": traceback.format_exc()[-4000:]}


SUBJECT_STATE: dict = {}


def _subject_loop(rfd, wfd):
    while True:
        try:
            req = _recv(rfd)
        except EOFError:
            os._exit(0)
        if req.get("kind") == "exit":
            _send(wfd, {"ok": True, "value": None})
            os.close(wfd)
            if req.get("exit") == "finalize":
                SUBJECT_STATE.clear()
                sys.exit(0)
            os._exit(0)
        _send(wfd, _run(req["fn"], req["arg"]))


def _zygote_main(rfd, wfd, preload):
    for m in preload:
        importlib.import_module(m)
    subjects: dict[int, tuple] = {}
    next_sid = 0
    while True:
        try:
            req = _recv(rfd)
        except EOFError:
            os._exit(0)
        kind = req["kind"]
        if kind == "quit":
            for pid, sr, sw in subjects.values():
                try:
                    os.kill(pid, signal.SIGKILL)
                    os.waitpid(pid, 0)
                except (ProcessLookupError, ChildProcessError):
                    pass
            _send(wfd, {"ok": True})
            os._exit(0)
        if kind == "call":
            cr, cw = os.pipe()
            sys.stdout.flush()
            sys.stderr.flush()
            pid = os.fork()
            if pid == 0:
                os.close(cr)
                os.close(rfd)
                os.close(wfd)
                for _pid, sr, sw in subjects.values():
                    os.close(sr)
                    os.close(sw)
                out = _run(req["fn"], req["arg"])
                try:
                    _send(cw, out)
                except BaseException as e:  # noqa: BLE001
                    _send(cw, {"ok": False, "kind": "exception", "exc_type": type(e).__name__,
                               "exc": f"result not sendable: {e}", "tb": ""})
                os.close(cw)
                if req.get("exit") == "finalize":
                    sys.exit(0)     # real interpreter finalisation, shallow stack above us
                os._exit(0)
            os.close(cw)
            try:
                out = _recv(cr, req.get("timeout", 120))
            except TimeoutError:
                out = {"ok": False, "kind": "timeout", "stack": _stack_of(pid)}
                os.kill(pid, signal.SIGKILL)
            except EOFError:
                out = {"ok": False, "kind": "died"}
            os.close(cr)
            out["status"] = _wait(pid)
            try:
                os.unlink(stack_path(pid))
            except OSError:
                pass
            _send(wfd, out)
        elif kind == "spawn":
            req_r, req_w = os.pipe()
            res_r, res_w = os.pipe()
            sys.stdout.flush()
            sys.stderr.flush()
            pid = os.fork()
            if pid == 0:
                os.close(req_w)
                os.close(res_r)
                os.close(rfd)
                os.close(wfd)
                for _pid, sr, sw in subjects.values():
                    os.close(sr)
                    os.close(sw)
                _subject_loop(req_r, res_w)
                os._exit(0)
            os.close(req_r)
            os.close(res_w)
            subjects[next_sid] = (pid, res_r, req_w)
            _send(wfd, {"ok": True, "value": next_sid})
            next_sid += 1
        elif kind in ("scall", "sclose"):
            sid = req["sid"]
            pid, sr, sw = subjects[sid]
            try:
                _send(sw, req if kind == "scall" else {"kind": "exit", "exit": req.get("exit")})
                out = _recv(sr, req.get("timeout", 120))
            except TimeoutError:
                out = {"ok": False, "kind": "timeout"}
                os.kill(pid, signal.SIGKILL)
                kind = "sclose"
            except (EOFError, BrokenPipeError, OSError):
                out = {"ok": False, "kind": "died"}
                kind = "sclose"
            if kind == "sclose":
                out["status"] = _wait(pid)
                os.close(sr)
                os.close(sw)
                del subjects[sid]
            _send(wfd, out)


class Zygote:
    """Driver-side handle. Create at the top of main, outside any try/finally."""

    def __init__(self, preload=(), stderr_path=None):
        d_r, z_w = os.pipe()
        z_r, d_w = os.pipe()
        sys.stdout.flush()
        sys.stderr.flush()
        pid = os.fork()
        if pid == 0:
            os.close(d_r)
            os.close(d_w)
            if stderr_path:
                fd = os.open(stderr_path, os.O_WRONLY | os.O_CREAT | os.O_APPEND, 0o644)
                os.dup2(fd, 2)
                os.close(fd)
            devnull = os.open(os.devnull, os.O_RDWR)
            os.dup2(devnull, 0)
            os.dup2(devnull, 1)
            _zygote_main(z_r, z_w, preload)
            os._exit(0)
        os.close(z_r)
        os.close(z_w)
        self.pid, self.rfd, self.wfd = pid, d_r, d_w
        self.owner = os.getpid()

    def _rt(self, req, timeout):
        _send(self.wfd, req)
        try:
            return _recv(self.rfd, timeout + 60)
        except (TimeoutError, EOFError) as e:
            raise HarnessError(f"zygote unresponsive: {type(e).__name__}") from e

    def call(self, fn: str, arg, timeout=120, exit="finalize") -> dict:
        return self._rt({"kind": "call", "fn": fn, "arg": arg, "timeout": timeout, "exit": exit}, timeout)

    def spawn(self) -> int:
        return self._rt({"kind": "spawn"}, 30)["value"]

    def scall(self, sid: int, fn: str, arg, timeout=120) -> dict:
        return self._rt({"kind": "scall", "sid": sid, "fn": fn, "arg": arg, "timeout": timeout}, timeout)

    def sclose(self, sid: int, exit="finalize") -> dict:
        return self._rt({"kind": "sclose", "sid": sid, "exit": exit, "timeout": 60}, 60)

    def close(self):
        if os.getpid() != self.owner:
            return
        try:
            _send(self.wfd, {"kind": "quit"})
            _recv(self.rfd, 30)
        except Exception:
            pass
        try:
            os.kill(self.pid, signal.SIGKILL)
        except ProcessLookupError:
            pass
        try:
            os.waitpid(self.pid, 0)
        except ChildProcessError:
            pass


class HarnessError(Exception):
    """Something in the simulator itself failed; never a property verdict."""
