"""Choice tape: every decision of a run is drawn here (DESIGN 2.1).

generate mode: values come from random.Random(seed); replay mode: from a recorded list
(0 when exhausted or out of range, 0 being the simplest choice everywhere).
Each draw is appended to .trace so the run can be replayed from the trace alone.
"""
from __future__ import annotations

import hashlib
import random


def mix(*parts) -> int:
    """Stable 63-bit mix of integers/strings (independent of PYTHONHASHSEED)."""
    h = hashlib.sha256("|".join(str(p) for p in parts).encode()).digest()
    return int.from_bytes(h[:8], "big") >> 1


class Tape:
    def __init__(self, seed: int | None = None, recorded: list[int] | None = None):
        self.recorded = list(recorded) if recorded is not None else None
        self.rng = random.Random(seed) if recorded is None else None
        self.pos = 0
        self.trace: list[int] = []
        self.labels: list[str] = []

    def draw(self, n: int, label: str = "") -> int:
        if n <= 1:
            return 0
        if self.recorded is not None:
            v = self.recorded[self.pos] if self.pos < len(self.recorded) else 0
            if not 0 <= v < n:
                v = v % n if v > 0 else 0
            self.pos += 1
        else:
            v = self.rng.randrange(n)
        self.trace.append(v)
        self.labels.append(label)
        return v

    def pick(self, seq, label: str = ""):
        return seq[self.draw(len(seq), label)]

    def chance(self, num: int, den: int, label: str = "") -> bool:
        """True with probability num/den; value 0 (the replay default) means False."""
        return self.draw(den, label) >= den - num

    def shuffle(self, seq: list, label: str = "") -> list:
        """Fisher-Yates driven by the tape; all-zero tape = identity."""
        out = list(seq)
        for i in range(len(out) - 1):
            j = i + self.draw(len(out) - i, label)
            out[i], out[j] = out[j], out[i]
        return out

    def sample(self, seq: list, k: int, label: str = "") -> list:
        return self.shuffle(seq, label)[:k]
