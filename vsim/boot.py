"""Imported by the zygote before any fork: warm imports + seams installation."""
import importlib
import pkgutil

from vsim import seams

seams.assert_src_under_repo()

import src  # noqa: E402
import src.cli  # noqa: E402,F401
import src.linters  # noqa: E402
import click.testing  # noqa: E402,F401

for _m in pkgutil.walk_packages(src.linters.__path__, "src.linters."):
    try:
        importlib.import_module(_m.name)
    except Exception:  # same tolerance as rule discovery
        pass

seams.install()

import vsim.ops  # noqa: E402,F401
