"""SimPool: real forked worker processes, simulated scheduling (DESIGN 2.4).

Reproduces the contract of concurrent.futures.ProcessPoolExecutor with the fork start
method as the repository uses it: all max_workers processes are forked at the first
submit (inheriting the parent's state at that instant), work items are taken FIFO by
whichever worker is idle, results come back pickled, as_completed yields finished futures.
Who takes which item, who finishes when and which finished future is yielded next are
decided by the tape. Exactly one worker executes at any time.
"""
from __future__ import annotations

import multiprocessing
from concurrent.futures.process import BrokenProcessPool

from vsim import seams


def _worker_main(conn, wid):
    # Runs in the forked worker. Same start/exit path as the real pool's workers
    # (multiprocessing.Process bootstrap -> util._exit_function -> os._exit).
    while True:
        try:
            msg = conn.recv()
        except EOFError:
            return
        if msg is None:
            return
        fn, args, kwargs = msg
        try:
            res = ("ok", fn(*args, **kwargs))
        except BaseException as e:  # real pool ships the exception back too
            res = ("exc", e)
        try:
            conn.send(res)
        except Exception as e:  # unpicklable result
            conn.send(("exc", RuntimeError(f"unpicklable result: {e!r}")))


class SimFuture:
    def __init__(self, pool, idx, fn, args, kwargs):
        self._pool = pool
        self.idx = idx
        self.call = (fn, args, kwargs)
        self.state = "queued"       # queued -> running -> finished
        self.worker = None
        self._payload = None        # ("ok", value) | ("exc", exception)
        self.yielded = 0

    def done(self):
        return self.state == "finished"

    def cancelled(self):
        return False

    def running(self):
        return self.state == "running"

    def cancel(self):
        return False

    def result(self, timeout=None):
        while self.state != "finished":
            if not self._pool.step():
                raise RuntimeError("SimPool deadlock: future cannot finish")
        kind, val = self._payload
        if kind == "exc":
            raise val
        return val

    def exception(self, timeout=None):
        while self.state != "finished":
            if not self._pool.step():
                raise RuntimeError("SimPool deadlock: future cannot finish")
        kind, val = self._payload
        return val if kind == "exc" else None

    def add_done_callback(self, fn):
        self._pool._callbacks.append((self, fn))


SHAPES = ["fifo", "random", "one-greedy", "reverse", "straggler", "late-yield", "eager-yield"]


class SimPool:
    def __init__(self, max_workers=None, mp_context=None, initializer=None, initargs=(), **kw):
        ctx = seams.CTX
        self.ctx = ctx
        self.tape = ctx.tape
        self.W = max_workers or (ctx.cpu_count or multiprocessing.cpu_count())
        if self.W <= 0:
            raise ValueError("max_workers must be greater than 0")
        self.shape = ctx.knobs.get("shape", "random")
        self.exec_at = ctx.knobs.get("exec_at", "dispatch")
        self.kill_plan = ctx.knobs.get("kill")  # exposure only: {"item": idx}
        self.initializer, self.initargs = initializer, initargs
        self.futures: list[SimFuture] = []
        self.queue: list[SimFuture] = []
        self.running: list[SimFuture] = []   # in dispatch order
        self.workers = None
        self.idle: list[int] = []
        self.broken = False
        self._shutdown = False
        self._callbacks: list = []
        self.seq = 0

    # ---- executor API
    def __enter__(self):
        return self

    def __exit__(self, *exc):
        self.shutdown(wait=True)
        return False

    def submit(self, fn, /, *args, **kwargs):
        if self.broken:
            raise BrokenProcessPool("A child process terminated abruptly, the process pool is not usable anymore")
        if self._shutdown:
            raise RuntimeError("cannot schedule new futures after shutdown")
        f = SimFuture(self, len(self.futures), fn, args, kwargs)
        self.futures.append(f)
        self.queue.append(f)
        self.ctx.ev("submit", f.idx)
        if self.workers is None:
            self._start_workers()
        return f

    def map(self, fn, *iterables, timeout=None, chunksize=1):
        fs = [self.submit(fn, *args) for args in zip(*iterables)]

        def gen():
            for f in fs:
                yield f.result()
        return gen()

    def shutdown(self, wait=True, *, cancel_futures=False):
        if self._shutdown:
            return
        self._shutdown = True
        if cancel_futures:
            self.queue.clear()
        while self.step():
            pass
        if self.workers:
            for p, conn in self.workers:
                try:
                    conn.send(None)
                except Exception:
                    pass
            for p, conn in self.workers:
                p.join(30)
                if p.is_alive():
                    p.kill()
                    p.join()
                conn.close()
        self.ctx.ev("shutdown")

    # ---- simulation
    def _start_workers(self):
        mp = multiprocessing.get_context("fork")
        self.workers = []
        for w in range(self.W):
            parent, child = mp.Pipe()
            p = mp.Process(target=_worker_entry, args=(child, w, self.initializer, self.initargs))
            p.start()
            child.close()
            self.workers.append((p, parent))
        self.idle = list(range(self.W))
        self.ctx.ev("start", self.W)
        self.ctx.count("pools")
        self.ctx.count("forks", self.W)

    def _actions(self):
        acts = []
        if self.queue and self.idle:
            for w in sorted(self.idle):
                acts.append(("dispatch", w))
        for f in self.running:
            acts.append(("finish", f.worker))
        return acts

    def has_actions(self):
        return bool(self._actions())

    def _choose(self, acts):
        t, shape = self.tape, self.shape
        if len(acts) == 1:
            return acts[0]
        disp = [a for a in acts if a[0] == "dispatch"]
        fin = [a for a in acts if a[0] == "finish"]
        if shape == "fifo":
            return acts[0]
        if shape == "one-greedy":
            # worker 0 takes almost everything: finish it at once, hand it the next item
            pref = [a for a in acts if a[1] == 0]
            if pref and not t.chance(1, 8, "sched.greedy-miss"):
                return ([a for a in pref if a[0] == "finish"] or pref)[0]
        elif shape == "reverse":
            if disp:
                return disp[t.draw(len(disp), "sched.disp")]
            return fin[-1] if not t.chance(1, 8, "sched.rev-miss") else t.pick(fin, "sched.fin")
        elif shape == "straggler":
            first = self.futures[0]
            if first.state == "running":
                rest = [a for a in acts if not (a[0] == "finish" and a[1] == first.worker)]
                if rest:
                    return t.pick(rest, "sched.strag")
        return acts[t.draw(len(acts), "sched.act")]

    def step(self) -> bool:
        """Take one scheduling step; False when nothing is enabled."""
        if self.broken:
            return False
        acts = self._actions()
        if not acts:
            return False
        kind, w = self._choose(acts)
        self.seq += 1
        if kind == "dispatch":
            f = self.queue.pop(0)
            self.idle.remove(w)
            f.state, f.worker = "running", w
            self.running.append(f)
            self.ctx.ev("dispatch", f.idx, w)
            if self.exec_at == "dispatch":
                self._execute(f)
        else:
            f = next(x for x in self.running if x.worker == w)
            if f._payload is None:
                self._execute(f)
            if self.broken:
                return True
            self.running.remove(f)
            self.idle.append(w)
            f.state = "finished"
            self.ctx.ev("finish", f.idx, w)
            for ff, cb in list(self._callbacks):
                if ff is f:
                    cb(f)
        return True

    def _execute(self, f):
        p, conn = self.workers[f.worker]
        self.ctx.ev("exec", f.idx, f.worker)
        self.ctx.count("tasks")
        if self.kill_plan and self.kill_plan.get("item") == f.idx:
            p.kill()
            p.join()
            self.ctx.count("fault.worker_killed")
            self._break()
            return
        try:
            conn.send(f.call)
            f._payload = conn.recv()
        except (EOFError, OSError, BrokenPipeError):
            self.ctx.count("worker_died")
            self._break()

    def _break(self):
        self.broken = True
        exc = BrokenProcessPool("A process in the process pool was terminated abruptly while the future was running or pending.")
        for f in self.futures:
            if f.state != "finished":
                f._payload = ("exc", exc)
                f.state = "finished"
        self.queue.clear()
        self.running.clear()
        for p, conn in self.workers:
            if p.is_alive():
                p.kill()
            p.join()
        self.ctx.ev("broken")


def _worker_entry(conn, wid, initializer, initargs):
    if initializer is not None:
        initializer(*initargs)
    _worker_main(conn, wid)


def sim_as_completed(fs, timeout=None):
    fs = list(fs)
    if not fs:
        return
    pool = fs[0]._pool
    tape, shape = pool.tape, pool.shape
    todo = list(dict.fromkeys(fs))  # as_completed de-duplicates
    while todo:
        ready = [f for f in todo if f.state == "finished"]
        can_step = pool.has_actions()
        if ready and can_step:
            if shape == "late-yield":
                now = False
            elif shape == "eager-yield":
                now = True
            else:
                now = tape.chance(1, 2, "sched.yield-now")
        else:
            now = bool(ready)
        if now:
            f = ready[tape.draw(len(ready), "sched.yield")] if shape != "fifo" else ready[0]
            todo.remove(f)
            f.yielded += 1
            pool.ctx.ev("yield", f.idx)
            yield f
        elif can_step:
            pool.step()
        else:
            raise RuntimeError("SimPool deadlock in as_completed")


def schedule_summary(events: list) -> dict:
    """Partition / completion signature of one pool use, from the recorded events."""
    W = 0
    per_worker: dict[int, list[int]] = {}
    finish, yields, submitted = [], [], 0
    for e in events:
        if e[0] == "start":
            W = e[1]
        elif e[0] == "submit":
            submitted += 1
        elif e[0] == "dispatch":
            per_worker.setdefault(e[2], []).append(e[1])
        elif e[0] == "finish":
            finish.append(e[1])
        elif e[0] == "yield":
            yields.append(e[1])
    sizes = sorted((len(v) for v in per_worker.values()), reverse=True)
    return {"W": W, "submitted": submitted, "partition": sizes, "finish": finish, "yield": yields,
            "per_worker": {str(k): v for k, v in sorted(per_worker.items())}}
