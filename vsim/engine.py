"""Batch engine, launcher, known-findings protocol, evidence (DESIGN 2.6, 2.7, 3)."""
from __future__ import annotations

import hashlib
import importlib
import json
import os
import subprocess
import sys
import time
from collections import Counter
from pathlib import Path

from vsim.tape import mix

VERIF = Path(__file__).resolve().parent.parent
PROPS = {"C07": "vsim.props.c07", "C08": "vsim.props.c08", "C11": "vsim.props.c11", "C20": "vsim.props.c20"}
NBATCH = int(os.environ.get("VSIM_BATCHES", "16"))


def digest(obj) -> str:
    return hashlib.sha256(json.dumps(obj, sort_keys=True, default=str).encode()).hexdigest()[:16]


def canon_violations(world, vs) -> list[str]:
    """Sorted multiset of complete violations with canonical paths (the C digest's input)."""
    out = []
    for v in vs:
        out.append(json.dumps([world.canon(x) for x in v], ensure_ascii=True))
    return sorted(out)


def multiset_diff(a: list[str], b: list[str]):
    ca, cb = Counter(a), Counter(b)
    return sorted((ca - cb).elements()), sorted((cb - ca).elements())


FIELDS = ["rule_id", "file_path", "line", "column", "message", "severity", "suggestion"]


def classify_diff(only_a: list[str], only_b: list[str], a_name="missing", b_name="extra"):
    """Turn a multiset difference into signatures: field:<name> where a pair differs in one
    field only, otherwise <a_name>/<b_name> per rule id."""
    A = [json.loads(x) for x in only_a]
    B = [json.loads(x) for x in only_b]
    sigs = []
    usedB = set()
    restA = []
    for va in A:
        hit = None
        for j, vb in enumerate(B):
            if j in usedB or len(vb) != len(va):
                continue
            d = [i for i in range(len(va)) if va[i] != vb[i]]
            if len(d) == 1 and d[0] >= 2:
                hit = (j, d[0])
                break
        if hit:
            usedB.add(hit[0])
            sigs.append((f"field:{FIELDS[hit[1]] if hit[1] < len(FIELDS) else hit[1]}", va[0]))
        else:
            restA.append(va)
    for va in restA:
        sigs.append((a_name, va[0]))
    for j, vb in enumerate(B):
        if j not in usedB:
            sigs.append((b_name, vb[0]))
    return collapse_rules(sorted(set(sigs)))


def collapse_rules(kinds: list[tuple[str, str]], limit: int = 3) -> list[tuple[str, str]]:
    """A difference kind that hits more than `limit` rule ids is one finding about all rules."""
    by_kind: dict[str, list[str]] = {}
    for kind, rule in kinds:
        by_kind.setdefault(kind, []).append(rule)
    out = []
    for kind, rules in sorted(by_kind.items()):
        if len(rules) > limit:
            out.append((kind, "*"))
        else:
            out.extend((kind, r) for r in rules)
    return out


# ----------------------------------------------------------------------------- known findings

def load_known() -> list[dict]:
    p = VERIF / "known_findings.jsonl"
    out = []
    if p.exists():
        for line in p.read_text().splitlines():
            line = line.strip()
            if line and not line.startswith("#"):
                out.append(json.loads(line))
    return out


def known_match(prop_id: str, sig: str, known: list[dict]) -> dict | None:
    for k in known:
        if k.get("status") == "known" and k.get("property") == prop_id and k.get("signature") == sig:
            return k
    return None


# ----------------------------------------------------------------------------- batch (inside a batch interpreter)

def parse_indices(spec: str) -> list[int]:
    if ":" not in spec:
        return [int(x) for x in spec.split(",") if x != ""]
    a, b, step = (int(x) for x in spec.split(":"))
    return list(range(a, b, step))


def run_batch(prop_id: str, seed: int, tier: str, indices: list[int], out_path: str, zy) -> None:
    prop = importlib.import_module(PROPS[prop_id])
    hashseed = int(os.environ.get("PYTHONHASHSEED", "0") or 0)
    t0 = time.time()
    runs, failures, harness = [], {}, []
    known = load_known()
    min_total = int(os.environ.get("VSIM_MIN_BUDGET", getattr(prop, "MIN_BUDGET", 60)))  # executions per batch spent on shrinking
    hangs = 0
    for idx in indices:
        if hangs >= 3:   # a hang is established; do not spend the batch's wall budget re-finding it
            break
        rs = mix(seed, prop_id, idx)
        t_run = time.time()
        try:
            sc = prop.gen(rs, tier)
            sc.update({"prop": prop_id, "seed": rs, "index": idx, "hashseed": hashseed, "verif_seed": seed})
            res = prop.execute(zy, sc)
        except Exception as e:  # harness trouble, never a verdict
            import traceback
            harness.append({"index": idx, "error": f"{type(e).__name__}: {e}", "tb": traceback.format_exc()[-1500:]})
            continue
        run = {"index": idx, "H": res["H"], "C": res["C"], "stats": res["stats"], "sigs": [f["sig"] for f in res["failures"]],
               "wall": round(time.time() - t_run, 2)}
        print(f"run {idx} {run['wall']}s sigs={len(run['sigs'])}", flush=True)
        if res.get("harness"):
            harness.append({"index": idx, "error": res["harness"]})
        runs.append(run)
        for f in res["failures"]:
            sig = f["sig"]
            if " steps " in sig or " wall " in sig:
                hangs += 1
            if sig in failures:
                failures[sig]["count"] += 1
                continue
            rec = {"sig": sig, "count": 1, "index": idx, "detail": f.get("detail")}
            sc2 = res.get("scenario", sc)
            if (known_match(prop_id, sig, known) is None or os.environ.get("VSIM_MIN_KNOWN")) and min_total > 0:
                sc2, spent = minimise(prop, zy, sc2, sig, min(getattr(prop, "MIN_PER_SIG", 30), min_total))
                min_total -= spent
                rec["minimise_execs"] = spent
            rec["replay"] = write_replay(prop_id, sig, sc2)
            failures[sig] = rec
    if hasattr(prop, "cleanup"):
        prop.cleanup()
    out = {"prop": prop_id, "seed": seed, "tier": tier, "hashseed": hashseed, "indices": indices,
           "runs": runs, "failures": list(failures.values()), "harness": harness, "wall_s": time.time() - t0}
    Path(out_path).write_text(json.dumps(out))


def sig_slug(sig: str) -> str:
    return hashlib.sha256(sig.encode()).hexdigest()[:10]


def write_replay(prop_id: str, sig: str, scenario: dict) -> str:
    d = Path(os.environ.get("VSIM_REPLAY_DIR", VERIF / "replays"))
    d.mkdir(parents=True, exist_ok=True)
    p = d / f"{prop_id}-{sig_slug(sig)}-{scenario.get('seed', 0)}.json"
    doc = {"property": prop_id, "signature": sig, "scenario": scenario}
    p.write_text(json.dumps(doc, indent=1, sort_keys=True))
    return str(p)


def minimise(prop, zy, scenario: dict, sig: str, budget: int):
    """Greedy shrinking: keep a candidate iff the same signature persists (DESIGN 2.6)."""
    spent = 0
    improved = True
    while improved and spent < budget:
        improved = False
        for cand in prop.shrink(scenario):
            if spent >= budget:
                break
            spent += 1
            try:
                r = prop.execute(zy, cand)
            except Exception:
                continue
            if any(f["sig"] == sig for f in r["failures"]):
                scenario = r.get("scenario", cand)
                improved = True
                break
    return scenario, spent


# ----------------------------------------------------------------------------- launcher

def batch_env(hashseed: int) -> dict:
    env = dict(os.environ)
    env["PYTHONHASHSEED"] = str(hashseed)
    repo = os.environ.get("VERIF_REPO", "/repo")
    env["PYTHONPATH"] = f"{repo}:{VERIF}"
    env["PYTHONDONTWRITEBYTECODE"] = "1"
    env.pop("VSIM_SCRATCH_TAG", None)
    return env


def tier_runs(prop_id: str, tier: str) -> int:
    prop = importlib.import_module(PROPS[prop_id])
    env = os.environ.get("VSIM_RUNS")
    if env:
        return int(env)
    return prop.RUNS[tier]


def sweep_stale_scratch() -> None:
    """Remove worlds left behind by batch processes that no longer exist (killed by a wall limit)."""
    import re
    import shutil

    from vsim.world import scratch_base
    base = scratch_base()
    try:
        names = os.listdir(base)
    except OSError:
        return
    for n in names:
        m = re.match(r"vsim-(?:zygote-|out-|stack-)?(\d+)[-.]", n)
        if not m:
            continue
        if os.path.exists(f"/proc/{m.group(1)}"):
            continue
        p = base / n
        if p.is_dir():
            shutil.rmtree(p, ignore_errors=True)
        else:
            try:
                p.unlink()
            except OSError:
                pass


def shutil_rm(path) -> None:
    import shutil
    shutil.rmtree(path, ignore_errors=True)


def launch(prop_id: str, tier: str, seed: int, runs: int | None = None, hashseeds: list[int] | None = None,
           nbatch: int | None = None, outdir: Path | None = None, wall_limit: float | None = None,
           only: list[int] | None = None):
    """Start nbatch batch interpreters, wait, return (outputs, harness_errors)."""
    sweep_stale_scratch()
    nbatch = nbatch or NBATCH
    runs = runs or tier_runs(prop_id, tier)
    nbatch = max(1, min(nbatch, runs))
    outdir = outdir or Path(os.environ.get("VSIM_OUT", "/dev/shm" if os.path.isdir("/dev/shm") else "/tmp")) / f"vsim-out-{os.getpid()}-{prop_id}"
    outdir.mkdir(parents=True, exist_ok=True)
    procs = []
    for b in range(nbatch):
        hs = hashseeds[b % len(hashseeds)] if hashseeds else 1 + mix(seed, "hashseed", b) % 4000000000
        out = outdir / f"batch-{b}.json"
        log = outdir / f"batch-{b}.log"
        cmd = [sys.executable, str(VERIF / "vsim" / "main.py"), "batch", prop_id, "--seed", str(seed),
               "--tier", tier, "--indices", ",".join(map(str, only)) if only else f"{b}:{runs}:{nbatch}", "--out", str(out)]
        lf = open(log, "w")
        benv = batch_env(hs)
        benv.setdefault("VSIM_REPLAY_DIR", str(outdir / "replays"))   # the launcher keeps only what it reports
        procs.append((b, subprocess.Popen(cmd, env=benv, stdout=lf, stderr=subprocess.STDOUT, cwd=str(VERIF), start_new_session=True), out, log, lf, hs))
    prop = importlib.import_module(PROPS[prop_id])
    limit = wall_limit or prop.WALL[tier]
    deadline = time.time() + limit
    outputs, herr = [], []
    for b, p, out, log, lf, hs in procs:
        try:
            rc = p.wait(max(1, deadline - time.time()))
        except subprocess.TimeoutExpired:
            rc = "wall-limit"
        try:   # the batch's zygote, subjects, workers and mirror live in its session: take them all down
            os.killpg(p.pid, 9)
        except (ProcessLookupError, PermissionError):
            pass
        p.wait()
        lf.close()
        if rc != 0 or not out.exists():
            tail = ""
            try:
                tail = Path(log).read_text()[-1500:]
            except Exception:
                pass
            herr.append({"batch": b, "rc": rc, "log_tail": tail})
            continue
        outputs.append(json.loads(out.read_text()))
    return outputs, herr, outdir


def keep_replay(path: str) -> str:
    """Move a reported replay file out of the batch scratch into /verif/replays (or VSIM_REPLAY_DIR)."""
    import shutil
    d = Path(os.environ.get("VSIM_REPLAY_DIR", VERIF / "replays"))
    d.mkdir(parents=True, exist_ok=True)
    dst = d / Path(path).name
    if Path(path).resolve() != dst.resolve():
        shutil.copyfile(path, dst)
    return str(dst)


def verify_replay(path: str, hashseed: int, timeout=900) -> tuple[bool, str]:
    """Replay in a fresh interpreter; True iff the same signature is reproduced."""
    cmd = [sys.executable, str(VERIF / "vsim" / "main.py"), "exec", path]
    try:
        r = subprocess.run(cmd, env=batch_env(hashseed), capture_output=True, text=True, timeout=timeout, cwd=str(VERIF))
    except subprocess.TimeoutExpired:
        return False, "replay timed out"
    return ("REPRODUCED" in r.stdout), (r.stdout + r.stderr)[-800:]


def check(prop_id: str, tier: str, seed: int) -> int:
    t0 = time.time()
    prop = importlib.import_module(PROPS[prop_id])
    outputs, herr, outdir = launch(prop_id, tier, seed)
    known = load_known()
    fails: dict[str, dict] = {}
    for o in outputs:
        for f in o["failures"]:
            f = dict(f, hashseed=o["hashseed"])
            if f["sig"] in fails:
                fails[f["sig"]]["count"] += f["count"]
            else:
                fails[f["sig"]] = f
        for h in o["harness"]:
            herr.append(h)
    violations, known_seen, unverified = [], [], []
    max_report = int(os.environ.get("VSIM_MAX_REPORT", "8"))
    for sig, f in sorted(fails.items(), key=lambda kv: (0 if kv[1].get("minimise_execs") else 1, kv[0])):
        k = known_match(prop_id, sig, known)
        if k is not None:
            print(f"KNOWN-FINDING: property={prop_id} {sig}")
            known_seen.append({"signature": sig, "count": f["count"]})
            try:
                os.unlink(f["replay"])
            except OSError:
                pass
            continue
        if len(violations) >= max_report:
            unverified.append(f)
            continue
        ok, tail = verify_replay(f["replay"], f["hashseed"])
        if ok:
            f["replay"] = keep_replay(f["replay"])
            violations.append(f)
        else:
            herr.append({"error": f"failure did not reproduce on replay: {sig}", "replay": f["replay"], "tail": tail})
    # in-check determinism sample: the indices of batch 0 once more, in a new interpreter with the same hash
    # seed but alone (different batch layout): harness decisions (H) and results (C) must be identical
    det = {"indices": 0, "H_mismatches": 0, "C_mismatches": 0}
    if outputs and not os.environ.get("VSIM_NO_DETCHECK"):
        first = min(outputs, key=lambda o: o["indices"][0] if o["indices"] else 1 << 30)
        sample = [r["index"] for r in first["runs"]][:getattr(prop, "DET_SAMPLE", 4)]
        if sample:
            saved = os.environ.get("VSIM_MIN_BUDGET")
            os.environ["VSIM_MIN_BUDGET"] = "0"     # the sample only compares digests
            try:
                o2, herr2, outdir2 = launch(prop_id, tier, seed, runs=max(sample) + 1, hashseeds=[first["hashseed"]], nbatch=1,
                                            outdir=Path(str(outdir) + "-det"), only=sample)
            finally:
                if saved is None:
                    os.environ.pop("VSIM_MIN_BUDGET", None)
                else:
                    os.environ["VSIM_MIN_BUDGET"] = saved
            shutil_rm(outdir2)
            again = {r["index"]: r for o in o2 for r in o["runs"]}
            ref = {r["index"]: r for r in first["runs"]}
            for i in sample:
                det["indices"] += 1
                if i not in again or again[i]["H"] != ref[i]["H"]:
                    det["H_mismatches"] += 1
                elif again[i]["C"] != ref[i]["C"]:
                    det["C_mismatches"] += 1
            if det["H_mismatches"] or det["C_mismatches"] or herr2:
                herr.append({"error": "determinism sample mismatch", "detail": det, "harness": herr2[:1]})
    ev = prop.evidence(outputs, tier, seed)
    ev.setdefault("coverage", {})["determinism_sample"] = det
    ev.setdefault("coverage", {})
    cov = ev["coverage"]
    cov["known_findings_seen"] = known_seen
    cov["harness_errors"] = len(herr)
    cov["batches"] = len(outputs)
    wall = time.time() - t0
    n_runs = sum(len(o["runs"]) for o in outputs)
    cov["runs_per_hour"] = int(n_runs / wall * 3600) if wall > 0 else 0
    cov["hash_seeds"] = sorted({o["hashseed"] for o in outputs})
    ev.update({"property_id": prop_id, "tier": tier, "seed": seed, "level": "exploration",
               "wall_s": round(wall, 2), "violations": len(violations)})
    (VERIF / "evidence").mkdir(exist_ok=True)
    (VERIF / "evidence" / f"{prop_id}.json").write_text(json.dumps(ev, indent=1, sort_keys=True))
    for f in unverified:
        f["replay"] = keep_replay(f["replay"])
    import shutil
    shutil.rmtree(outdir, ignore_errors=True)
    for f in violations:
        print(f"VIOLATION property={prop_id} replay={f['replay']}")
        print(f"  signature: {f['sig']}  (seen {f['count']}x, first at run index {f['index']})")
    for f in unverified:
        print(f"  further unlisted signature (replay not re-verified): {f['sig']} replay={f['replay']}")
    for h in herr[:10]:
        print("HARNESS-ERROR:", json.dumps(h)[:1500], file=sys.stderr)
    print(f"{prop_id} {tier}: {n_runs} runs in {wall:.1f}s, {len(violations)} violation signature(s), "
          f"{len(known_seen)} known finding(s), {len(herr)} harness error(s)")
    if violations:
        return 1
    if herr:
        return 2
    return 0
