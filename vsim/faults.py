"""Storage / content faults for C11 (DESIGN 4, C11): pure functions bytes -> bytes.

A fault is {"kind": str, "p": [ints]}; apply() is deterministic in (kind, p, data, lang), so
an offender is fully described by its recipe {base, lang, faults} and can be shrunk by
dropping faults. Parameters are drawn from the tape by draw_fault().
"""
from __future__ import annotations

import random
import re

CLASSES = {
    "torn": ["zero", "truncate", "tail", "dup_block", "open_construct", "open_construct", "fragment_only", "no_final_newline"],
    "corrupt": ["flip", "bad_utf8", "nul", "bom8", "bom16", "crlf", "mixed_eol", "lone_cr", "ws_only", "binary", "escape_in_string",
                "odd_separators", "odd_separators", "non_ascii"],
    "grammar": ["del_line", "dup_line", "del_token", "dup_token", "unbalance", "drop_close", "dedent",
                "swap_ext", "shebang", "coding_cookie", "coding_cookie", "del_char", "dup_char", "del_punct", "stray_line", "truncate_line", "num_mangle", "num_mangle", "run_small", "run_small", "odd_directive", "odd_directive"],
    "blowup": ["nest", "chain", "long_line", "many_funcs", "deep_parens", "deep_list", "long_run", "long_run", "huge_number"],
}
KIND_CLASS = {k: c for c, ks in CLASSES.items() for k in ks}
EXTS = [".py", ".ts", ".tsx", ".js", ".jsx", ".rs", ".java", ".go", ".txt", ".md", "", ".PY", ".json"]


COOKIE_CODECS = [b"utf-8", b"latin-1", b"ascii", b"cp1252", b"utf-8-sig", b"utf-16", b"utf-16-le", b"utf-32", b"utf-7", b"rot13",
                 b"hex", b"base64", b"zlib", b"bz2", b"uu", b"quopri", b"undefined", b"punycode", b"idna", b"unicode_escape",
                 b"raw_unicode_escape", b"mbcs", b"no-such-codec", b"UTF8", b"iso-8859-15", b"shift_jis", b"cp037", b""]


OPEN_CONSTRUCTS = {
    "python": [b"from collections import (\n    OrderedDict,\n    defaultdict,\n", b"VALUES = [\n    1,\n    2,\n",
               b'"""unterminated docstring\nsecond line\n', b"def torn(\n    first,\n    second,\n", b"CONFIG = {\n    'a': 1,\n",
               b"import os\nfrom os.path import (\n    join,\n", b"result = compute(\n    1,\n", b"text = \'\'\'open\n"],
    "ts": [b"import {\n  alpha,\n  beta,\n", b"/* unterminated comment\n still\n", b"const s = `open template\n line\n",
           b"export function torn(\n  a,\n  b,\n", b"const o = {\n  a: 1,\n", b"const l = [\n  1,\n", b"if (x) {\n  y();\n",
           b"class Torn {\n  m() {\n"],
    "rust": [b"use std::{\n    io,\n    fs,\n", b"/* unterminated comment\n still\n", b'const S: &str = "open\n string\n',
             b"pub fn torn(\n    a: i32,\n", b"pub struct Torn {\n    a: i32,\n", b"impl Torn {\n    fn m(&self) {\n",
             b"let v = vec![\n    1,\n", b"#[cfg(\n"],
}


def draw_fault(t, data: bytes, lang: str, allow_blowup: bool = True, force_blowup: bool = False) -> dict:
    classes = ["torn", "corrupt", "grammar", "grammar"] + (["blowup"] if allow_blowup else [])
    cls = t.pick(classes, "fault.class")
    if force_blowup and t.chance(2, 3, "fault.force"):
        cls = "blowup"
    kind = t.pick(CLASSES[cls], "fault.kind")
    n = max(1, len(data))
    P = 1 << 20
    if kind in ("truncate", "tail", "bad_utf8", "nul", "unbalance"):
        p = [t.draw(P, "fault.pos"), t.draw(8, "fault.aux")]
    elif kind == "dup_block":
        p = [t.draw(P, "fault.a"), t.draw(P, "fault.b")]
    elif kind == "flip":
        p = [1 + t.draw(8, "fault.k"), t.draw(1 << 30, "fault.seed")]
    elif kind == "binary":
        p = [t.pick([1, 16, 300, 5000], "fault.len"), t.draw(1 << 30, "fault.seed")]
    elif kind in ("del_char", "dup_char", "del_punct"):
        p = [t.draw(P, "fault.pos")]
    elif kind == "open_construct":
        p = [t.draw(8, "fault.which"), t.draw(3, "fault.where"), t.draw(P, "fault.pos")]
    elif kind == "odd_separators":
        p = [t.draw(P, "fault.pos"), t.draw(8, "fault.sep"), 1 + t.draw(4, "fault.cnt")]
    elif kind == "non_ascii":
        p = [t.draw(P, "fault.pos"), t.draw(6, "fault.what")]
    elif kind == "fragment_only":
        p = [t.draw(14, "fault.frag")]
    elif kind == "odd_directive":
        p = [t.draw(P, "fault.pos"), t.draw(24, "fault.which"), t.draw(4, "fault.place")]
    elif kind == "num_mangle":
        p = [t.draw(P, "fault.pos"), t.draw(12, "fault.how")]
    elif kind == "stray_line":
        p = [t.draw(P, "fault.pos"), t.draw(10, "fault.what"), t.draw(2, "fault.boundary")]
    elif kind == "truncate_line":
        p = [t.draw(P, "fault.pos"), t.draw(2, "fault.early")]
    elif kind == "shebang":
        p = [t.draw(8, "fault.variant")]
    elif kind == "coding_cookie":
        p = [t.draw(len(COOKIE_CODECS), "fault.codec"), t.draw(6, "fault.form")]
    elif kind in ("del_line", "dup_line", "del_token", "dup_token", "dedent"):
        p = [t.draw(P, "fault.idx"), 1 + t.draw(3, "fault.cnt")]
    elif kind == "swap_ext":
        p = [t.draw(len(EXTS), "fault.ext")]
    elif kind == "nest":
        p = [t.pick([30, 120, 400, 1100, 3000], "fault.k")]
    elif kind == "chain":
        p = [t.pick([200, 1500, 6000, 20000], "fault.n")]
    elif kind == "long_line":
        p = [t.pick([5000, 100000, 1000000], "fault.n")]
    elif kind == "run_small":
        p = [t.pick([40, 300], "fault.n"), t.draw(12, "fault.shape"), t.draw(P, "fault.pos")]
    elif kind == "long_run":
        p = [t.pick([300, 2500, 9000], "fault.n"), t.draw(12, "fault.shape"), t.draw(P, "fault.pos")]
    elif kind == "huge_number":
        p = [t.pick([40, 700, 4400, 20000], "fault.n"), t.draw(4, "fault.base"), t.draw(2, "fault.inplace"), t.draw(P, "fault.pos")]
    elif kind == "escape_in_string":
        p = [t.draw(P, "fault.pos"), t.draw(10, "fault.esc")]
    elif kind == "many_funcs":
        p = [t.pick([60, 200, 500], "fault.n")]
    elif kind in ("deep_parens", "deep_list"):
        p = [t.pick([100, 900, 5000], "fault.n")]
    else:
        p = []
    return {"kind": kind, "p": p}


def _pos(data: bytes, frac: int) -> int:
    return (frac * len(data)) >> 20 if data else 0


def _lines(data: bytes) -> list[bytes]:
    return data.split(b"\n")


TOKEN = re.compile(rb"[A-Za-z_][A-Za-z_0-9]*|\d+|[^\sA-Za-z_0-9]")


def apply(f: dict, data: bytes, lang: str) -> bytes:
    k, p = f["kind"], f["p"]
    if k == "zero":
        return b""
    if k == "truncate":
        return data[:_pos(data, p[0])]
    if k == "tail":
        return data[_pos(data, p[0]):]
    if k == "dup_block":
        a, b = sorted((_pos(data, p[0]), _pos(data, p[1])))
        return data[:b] + data[a:b] + data[b:]
    if k == "flip":
        rng = random.Random(p[1])
        ba = bytearray(data)
        for _ in range(p[0]):
            if ba:
                ba[rng.randrange(len(ba))] = rng.randrange(256)
        return bytes(ba)
    if k == "bad_utf8":
        bad = [b"\xff", b"\xc3(", b"\xe2\x82", b"\xf0\x9f\x98", b"\xed\xa0\x80", b"\x80", b"\xc0\xaf", b"\xfe\xfe"][p[1] % 8]
        i = _pos(data, p[0])
        return data[:i] + bad + data[i:]
    if k == "nul":
        i = _pos(data, p[0])
        return data[:i] + b"\x00" * (1 + p[1]) + data[i:]
    if k == "bom8":
        return b"\xef\xbb\xbf" + data
    if k == "bom16":
        try:
            return b"\xff\xfe" + data.decode("utf-8").encode("utf-16-le")
        except UnicodeDecodeError:
            return b"\xff\xfe" + data
    if k == "crlf":
        return data.replace(b"\r\n", b"\n").replace(b"\n", b"\r\n")
    if k == "mixed_eol":
        ls = _lines(data)
        return b"".join(l + (b"\r\n" if i % 3 == 0 else b"\r" if i % 3 == 1 else b"\n") for i, l in enumerate(ls))
    if k == "lone_cr":
        return data.replace(b"\n", b"\r")
    if k == "ws_only":
        return b" \t\n\n   \n\t\t\n" * 3
    if k == "binary":
        rng = random.Random(p[1])
        return bytes(rng.randrange(256) for _ in range(p[0]))
    if k in ("del_line", "dup_line", "dedent"):
        ls = _lines(data)
        if not ls:
            return data
        i = (p[0] * len(ls)) >> 20
        if k == "del_line":
            del ls[i:i + p[1]]
        elif k == "dup_line":
            ls[i:i] = ls[i:i + p[1]]
        else:
            for j in range(i, min(len(ls), i + p[1])):
                ls[j] = ls[j].lstrip(b" \t")
        return b"\n".join(ls)
    if k in ("del_char", "dup_char"):
        if not data:
            return data
        i = min(len(data) - 1, _pos(data, p[0]))
        return data[:i] + data[i + 1:] if k == "del_char" else data[:i] + data[i:i + 1] + data[i:]
    if k == "odd_separators":
        # characters that str.splitlines() treats as line breaks but "\n"-splitting and most parsers do not
        sep = [b"\x0c", b"\x0b", "\u2028".encode(), "\u2029".encode(), "\u0085".encode(), b"\x1c", b"\x1d", b"\r"][p[1] % 8]
        ls = _lines(data)
        if not ls:
            return sep
        start = (p[0] * len(ls)) >> 20
        for j in range(start, min(len(ls), start + p[2])):
            mid = len(ls[j]) // 2
            cut = ls[j][:mid].decode("utf-8", "ignore").encode()      # never split inside a multi-byte character
            ls[j] = (cut + sep + ls[j][len(cut):]) if j % 2 else (ls[j] + sep)
        return b"\n".join(ls)
    if k == "non_ascii":
        # multi-byte text where byte offsets and character offsets differ (comments, strings, identifiers)
        what = ["# größe ✓ 日本語 naïve ☃", "x = 'naïve ☃ 😀'", "größe = 1", "déjà_vu = 'é' * 3", "s = '\u00e9\u0301 ǅ ß'", "# 😀😀😀😀 ✓✓✓"][p[1] % 6]
        if lang in ("typescript", "javascript"):
            what = what.replace("# ", "// ").replace("x = ", "const x = ").replace("größe = 1", "const größe = 1;").replace("déjà_vu = ", "const déjà_vu = ").replace("s = ", "const s = ")
        elif lang == "rust":
            what = what.replace("# ", "// ").replace("x = 'naïve ☃ 😀'", 'const X: &str = "naïve ☃ 😀";').replace("größe = 1", "const GRÖSSE: i32 = 1;").replace("déjà_vu = 'é' * 3", 'const DÉJÀ: &str = "é";').replace("s = '", 'const S: &str = "').rstrip("'") 
        ls = _lines(data)
        i = (p[0] * (len(ls) + 1)) >> 20
        ls[i:i] = [what.encode("utf-8")]
        return b"\n".join(ls)
    if k == "fragment_only":
        py = [b"# only a comment", b'"""only a docstring"""', b"@decorator", b"def f():", b"class A:", b"if x:", b"x =", b"lambda:", b"@a\n@b\n",
              b"async def g(", b"try:", b"with open(p) as f:", b"match x:\n    case", b"def h(a, /, *, b): ..."]
        ts = [b"// only a comment", b"/** only jsdoc */", b"@Component()", b"function f() {", b"class A {", b"if (x) {", b"const x =", b"() =>",
              b"export default", b"import {", b"try {", b"switch (x) { case", b"`template ${", b"type T ="]
        rs = [b"// only a comment", b"//! inner doc", b"#[derive(Debug)]", b"fn f() {", b"impl A {", b"if x {", b"let x =", b"|| ",
              b"pub use", b"use std::{", b"match x {", b"struct S<", b"mod m;", b"unsafe {"]
        return (py if lang == "python" else rs if lang == "rust" else ts)[p[0] % 14] + b"\n"
    if k == "no_final_newline":
        return data.rstrip(b"\r\n")
    if k == "odd_directive":
        # a suppression / tool comment that is cut short, never closed, oversized or full of pattern metacharacters
        cm = b"# " if lang == "python" else b"// "
        d = [b"thailint: ignore[", b"thailint: ignore-start", b"thailint: ignore-start dry nesting", b"thailint: ignore[" + b"rule-x," * 800 + b"]",
             b"thailint: ignore[a.*(b, [x-, +?]", b"thailint: ignore-next-line[", b"thailint: ignore-file[", b"thailint: ignore-end",
             b"dry: ignore-block", b"dry: ignore-next", b"noqa: E501,", b"type: ignore[", b"pylint: disable=", b"nosec",
             b"eslint-disable-next-line", b"@ts-ignore thailint: ignore[*]",
             b"thailint: ignore[(legacy*]", b"thailint: ignore-next-line[dry.*, [wip*]", b"thailint: ignore-start dry.* +todo*",
             b"thailint: ignore[**********x]", b"thailint: ignore[*.numeric-literal, nesting.*]", b"thailint: ignore[magic-numbers",
             b"thailint: ignore-file[*)(*]", b"thailint:ignore[ , ,]"][p[1] % 24]
        line = cm + d
        ls = _lines(data)
        place = p[2] % 4
        # lines on which some rule is likely to report: the directive machinery only runs for reported lines
        hot = [i for i, l in enumerate(ls) if re.search(rb"\d{2}|print\(|console\.log|\.unwrap\(\)|\.clone\(\)|noqa|mode ==|mode in", l)]
        if place == 0:
            i = (p[0] * (len(ls) + 1)) >> 20
            ls[i:i] = [line]
            return b"\n".join(ls)
        if place in (1, 3) and ls:            # trailing comment on an existing (preferably reported) line, or the line before it
            cand = hot or list(range(len(ls)))
            i = cand[(p[0] * len(cand)) >> 20]
            if place == 1:
                ls[i] += b"  " + line
            else:
                ls[i:i] = [line.replace(b"ignore[", b"ignore-next-line[", 1) if b"ignore[" in line else line]
            return b"\n".join(ls)
        return data.rstrip(b"\n") + b"\n" + line     # last line of the file, no final newline
    if k == "num_mangle":
        # damage inside one numeric literal: what a lost or doubled keystroke does to a number
        nums = list(re.finditer(rb"(?<![A-Za-z_0-9.])\d[\d_]*(?:\.\d+)?(?:[eE][+-]?\d+)?", data))
        if not nums:
            return data
        m = nums[(p[0] * len(nums)) >> 20]
        tok = m.group(0)
        how = p[1] % 12
        new = [tok.replace(b".", b"", 1) if b"." in tok else b"0" + tok, b"0" + tok, tok + b"_", tok[:1] + b"_" + tok[1:], tok + b".",
               tok + b"..5", tok + b"e", tok + b"n", b"0x" + tok + b"g", tok + b"abc", tok + tok + tok + tok, b"0o" + tok + b"9"][how]
        return data[:m.start()] + new + data[m.end():]
    if k == "del_punct":
        # delete one punctuation character (a dot inside 0.5, a comma, a colon, a quote ...)
        idx = [m.start() for m in re.finditer(rb"[.,:;'\"=+\-*/<>!&|]", data)]
        if not idx:
            return data
        i = idx[(p[0] * len(idx)) >> 20]
        return data[:i] + data[i + 1:]
    if k in ("del_token", "dup_token"):
        toks = list(TOKEN.finditer(data))
        if not toks:
            return data
        m = toks[(p[0] * len(toks)) >> 20]
        if k == "del_token":
            return data[:m.start()] + data[m.end():]
        return data[:m.end()] + b" " + m.group(0) * p[1] + data[m.end():]
    if k == "unbalance":
        ch = [b"(", b")", b"{", b"}", b"[", b"]", b'"', b"'"][p[1] % 8]
        i = _pos(data, p[0])
        return data[:i] + ch + data[i:]
    if k == "drop_close":
        for ch in (b"}", b")", b"]", b'"""', b'"'):
            i = data.rfind(ch)
            if i >= 0:
                return data[:i] + data[i + len(ch):]
        return data
    if k == "open_construct":
        # a write torn inside a multi-line construct: the construct is opened and never closed
        frag = OPEN_CONSTRUCTS["python" if lang == "python" else "rust" if lang == "rust" else "ts"][p[0] % 8]
        if p[1] == 0:                       # the file ends inside the construct
            cut = data[:_pos(data, p[2])]
            cut = cut[:cut.rfind(b"\n") + 1] if b"\n" in cut else b""
            return cut + frag
        if p[1] == 1:                       # the whole file is just the torn construct
            return frag
        ls = _lines(data)                   # the construct is torn open in the middle, the rest follows
        i = (p[2] * (len(ls) + 1)) >> 20
        return b"\n".join(ls[:i]) + (b"\n" if i else b"") + frag + b"\n".join(ls[i:])
    if k == "stray_line":
        # one stray token on a line of its own, by preference right before a top-level construct
        what = [b"}", b")", b"]", b"{", b"(", b"*/", b'"""', b"'", b"#[", b"/*"][p[1] % 10]
        ls = _lines(data)
        if p[2]:
            heads = (b"fn ", b"pub ", b"def ", b"class ", b"function ", b"export ", b"#[", b"impl ", b"async ", b"mod ", b"@")
            cand = [i for i, l in enumerate(ls) if l.startswith(heads)]
        else:
            cand = []
        cand = cand or list(range(len(ls) + 1))
        i = cand[(p[0] * len(cand)) >> 20]
        ls[i:i] = [what]
        return b"\n".join(ls)
    if k == "truncate_line":
        # a lost tail that ends at a line boundary; half of the time inside the first lines (imports, headers)
        ls = _lines(data)
        n = min(len(ls), 10) if p[1] else len(ls)
        i = 1 + ((p[0] * max(1, n - 1)) >> 20)
        return b"\n".join(ls[:i]) + b"\n"
    if k == "swap_ext":
        return data
    if k == "shebang":
        first = [b"#!/usr/bin/env python3", b"#!/usr/bin/env python3", b"#!/usr/bin/python", b"#!", b"#! ", b"#!\r",
                 b"#!/bin/sh", b"#"][(p[0] if p else 0) % 8]
        return first + b"\n" + data
    if k == "coding_cookie":
        # a source-encoding declaration (PEP 263 and editor variants) in line 1 or 2; the bytes stay as they are
        codec = COOKIE_CODECS[p[0] % len(COOKIE_CODECS)]
        lead = b"//" if lang in ("ts", "typescript", "javascript", "js", "rust", "rs") else b"#"
        form = p[1] % 6
        line = [lead + b" -*- coding: " + codec + b" -*-", lead + b" coding=" + codec, lead + b" vim: set fileencoding=" + codec + b" :",
                lead + b" -*- coding: " + codec + b" -*-", lead + b"coding:" + codec, lead + b" This Python file uses the following encoding: " + codec][form]
        if form == 3:
            return b"#!/usr/bin/env python3\n" + line + b"\n" + data
        return line + b"\n" + data
    if k == "escape_in_string":
        # the content of one short string literal becomes an escape sequence (still valid source)
        esc = [b"\\ud800", b"\\udfff\\ud800", b"\\x00", b"\\U0010ffff", b"\\N{BULLET}", b"\\\\", b"\\u200b", b"\\xff\\xfe",
               b"\\0", b"\\ud83d"][p[1] % 10]
        lits = list(re.finditer(rb"\"([A-Za-z_ -]{1,12})\"", data))
        if not lits:
            return data
        m = lits[(p[0] * len(lits)) >> 20]
        return data[:m.start(1)] + esc + data[m.end(1):]
    if k in ("long_run", "run_small"):
        return _long_run(data, p[0], p[1], p[2], lang)
    if k == "huge_number":
        lit = [b"0x" + b"F" * p[0], b"9" * p[0], b"1" + b"0" * p[0] + b".5", b"0b" + b"1" * p[0]][p[1] % 4]
        if len(p) > 2 and p[2]:
            # in place: an existing literal (a call argument, a loop bound, a comparison operand ...) becomes huge
            nums = list(re.finditer(rb"(?<![A-Za-z_0-9.])\d[\d_]*(?![\d.eExX])", data))
            if nums:
                m = nums[(p[3] * len(nums)) >> 20]
                return data[:m.start()] + lit + data[m.end():]
        if lang == "python":
            return data + b"\n\ndef huge_value():\n    return " + lit + b"\n"
        if lang == "rust":
            return data + b"\npub fn huge_value() -> u128 { " + lit + b" }\n"
        return data + b"\nexport function hugeValue() { return " + lit + b"; }\n"
    # ---- blow-up: appended constructs in the file's language
    return data + _blowup(k, p[0], lang)


def _long_run(data: bytes, n: int, shape: int, pos: int, lang: str) -> bytes:
    """One extremely long line: a long run of one character class in a place where scanners look."""
    cm = b"#" if lang == "python" else b"//"
    shapes = [
        b"/**" + b" " * n + b"x",                                   # unterminated doc comment followed by blanks
        cm + b" " * n + b"x",
        cm + b" noqa: " + b"A" * n + b"-",
        cm + b" type: ignore[" + b"a" * n,
        cm + b" thailint: ignore[" + b"a," * (n // 2),
        b"ident_" + b"a" * n + b" = 1" if lang == "python" else b"const ident_" + b"a" * n + b" = 1;",
        b'"""\nSuppressions:\n' + b" " * n + b"x\n" + b'"""' if lang == "python" else b"/*\nSuppressions:\n" + b" " * n + b"x\n*/",
        b" " * n,
        b"\t" * n + b"x = 1",
        cm + b" " + b"- " * (n // 2),
        b"x = '" + b"\\" * (n // 2 * 2) + b"'",
        cm + b" TODO" + b"!" * n,
    ]
    line = shapes[shape % len(shapes)]
    ls = _lines(data)
    i = (pos * (len(ls) + 1)) >> 20
    if shape % len(shapes) in (0, 6) and shape % 2 == 0:
        i = 0                                                       # headers are looked for at the top of the file
    ls[i:i] = [line]
    return b"\n".join(ls)


def _blowup(k: str, n: int, lang: str) -> bytes:
    py = lang == "python"
    rs = lang == "rust"
    if k == "nest":
        if py:
            # python's own tokenizer refuses >100 indentation levels; nest brackets-free ifs up to that,
            # deeper nesting goes through nested lambdas / conditional expressions
            depth = min(n, 90)
            body = "".join("    " * (i + 1) + f"if x > {i}:\n" for i in range(depth))
            src = "\ndef blow_nest(x):\n" + body + "    " * (depth + 1) + "return x\n"
            if n > 90:
                src += "\nBLOW_COND = " + "(1 if True else " * n + "0" + ")" * n + "\n"
            return src.encode()
        head = "\npub fn blow_nest(x: i32) -> i32 {\n" if rs else "\nfunction blowNest(x) {\n"
        o = "".join(f"if x > {i} {{ " if rs else f"if (x > {i}) {{ " for i in range(n))
        tail = ("return x;" if not rs else "return x;") + " }" * n + ("\n x\n}\n" if rs else "\n return x;\n}\n")
        return (head + o + tail).encode()
    if k == "chain":
        terms = " + ".join(str(i % 7) for i in range(n))
        if py:
            return f"\nBLOW_SUM = {terms}\n".encode()
        if rs:
            return f"\npub fn blow_sum() -> i64 {{ {terms} }}\n".encode()
        return f"\nconst blowSum = {terms};\n".encode()
    if k == "long_line":
        s = "x" * n
        if py:
            return f'\nBLOW_LINE = "{s}"\n'.encode()
        if rs:
            return f'\npub const BLOW_LINE: &str = "{s}";\n'.encode()
        return f'\nconst blowLine = "{s}";\n'.encode()
    if k == "many_funcs":
        if py:
            return "".join(f"\ndef f{i}(a):\n    return a + {i % 5}\n" for i in range(n)).encode()
        if rs:
            return "".join(f"\npub fn f{i}(a: i32) -> i32 {{ a + {i % 5} }}\n" for i in range(n)).encode()
        return "".join(f"\nfunction f{i}(a) {{ return a + {i % 5}; }}\n" for i in range(n)).encode()
    if k == "deep_parens":
        expr = "(" * n + "1" + ")" * n
        if py:
            return f"\nBLOW_PAREN = {expr}\n".encode()
        if rs:
            return f"\npub fn blow_paren() -> i32 {{ {expr} }}\n".encode()
        return f"\nconst blowParen = {expr};\n".encode()
    if k == "huge_number":
        return b""   # handled in apply() via _huge_number
    if k == "deep_list":
        expr = "[" * n + "1" + "]" * n
        if py:
            return f"\nBLOW_LIST = {expr}\n".encode()
        if rs:
            return f"\npub fn blow_list() {{ let _v = {'vec![' * min(n, 400) + '1' + ']' * min(n, 400)}; }}\n".encode()
        return f"\nconst blowList = {expr};\n".encode()
    return b""


def build(recipe: dict) -> tuple[str, bytes]:
    """-> (relative path, content) of an offender from its recipe."""
    data = recipe["base"].encode("utf-8") if isinstance(recipe["base"], str) else bytes(recipe["base"])
    rel = recipe["rel"]
    for f in recipe["faults"]:
        data = apply(f, data, recipe["lang"])
        if f["kind"] == "swap_ext":
            stem = rel.rsplit(".", 1)[0] if "." in rel.rsplit("/", 1)[-1] else rel
            rel = stem + EXTS[f["p"][0] % len(EXTS)]
        elif f["kind"] == "shebang" and f.get("strip_ext", True):
            rel = rel.rsplit(".", 1)[0] if "." in rel.rsplit("/", 1)[-1] else rel
        if len(data) > (1 << 20):
            data = data[:1 << 20]
    return rel, data
