"""Seams the simulator owns (DESIGN 2.3). All reached from outside the repository.

install() patches module attributes of src.orchestrator.core once (in the zygote, before
any fork); the patched objects consult the module-global CTX, which each simulated process
sets for itself. With CTX None everything passes through to the real thing.
"""
from __future__ import annotations

import concurrent.futures as _cf
import json
import logging
import multiprocessing as _mp
import os as _os
import sys
import types

CTX = None  # type: SimCtx | None


class SimCtx:
    def __init__(self, tape=None, walk="real", pool="sim", cpu_count=None, tap_path=None,
                 knobs=None, walk_tape=None):
        self.tape = tape
        self.walk_tape = walk_tape or tape
        self.walk = walk            # real | sorted | tape
        self.pool = pool            # sim | real
        self.cpu_count = cpu_count
        self.tap_path = tap_path
        self.knobs = knobs or {}
        self.events: list = []
        self.counters: dict = {}

    def ev(self, *e):
        self.events.append(list(e))

    def count(self, k, n=1):
        self.counters[k] = self.counters.get(k, 0) + n


def set_ctx(ctx):
    global CTX
    CTX = ctx


# ----------------------------------------------------------------------------- os.walk

class _OsProxy(types.ModuleType):
    def __init__(self):
        super().__init__("os")

    def __getattr__(self, name):
        return getattr(_os, name)

    @staticmethod
    def walk(top, *a, **kw):
        ctx = CTX
        mode = ctx.walk if ctx else "real"
        for root, dirs, files in _os.walk(top, *a, **kw):
            if mode == "sorted":
                dirs.sort()
                files.sort()
            elif mode == "tape":
                dirs[:] = ctx.walk_tape.shuffle(sorted(dirs), "walk.dirs")
                files[:] = ctx.walk_tape.shuffle(sorted(files), "walk.files")
                ctx.count("walk_steps")
            vanish = ctx.knobs.get("vanish") if ctx else None
            if vanish:   # probe only: a file disappears between directory listing and read
                for fn in list(files):
                    if fn == vanish:
                        try:
                            _os.unlink(_os.path.join(root, fn))
                            ctx.count("fault.vanished")
                        except OSError:
                            pass
            yield root, dirs, files


class _MpProxy(types.ModuleType):
    def __init__(self):
        super().__init__("multiprocessing")

    def __getattr__(self, name):
        return getattr(_mp, name)

    @staticmethod
    def cpu_count():
        ctx = CTX
        if ctx and ctx.cpu_count:
            return ctx.cpu_count
        return _mp.cpu_count()


# ----------------------------------------------------------------------------- pool

def _pool_factory(*a, **kw):
    ctx = CTX
    if ctx is None or ctx.pool == "real":
        return _cf.ProcessPoolExecutor(*a, **kw)
    from vsim.simpool import SimPool
    return SimPool(*a, **kw)


def _as_completed(fs, timeout=None):
    ctx = CTX
    if ctx is None or ctx.pool == "real":
        return _cf.as_completed(fs, timeout)
    from vsim.simpool import sim_as_completed
    return sim_as_completed(fs, timeout)


# ----------------------------------------------------------------------------- taps

class _TapHandler(logging.Handler):
    """Appends one JSON line per swallowed failure to CTX.tap_path (O_APPEND, survives fork)."""

    def emit(self, record):
        ctx = CTX
        if ctx is None or not ctx.tap_path:
            return
        try:
            msg = record.msg if isinstance(record.msg, str) else str(record.msg)
            site = ("rule" if msg.startswith("Rule ") else "worker" if msg.startswith("Worker error")
                    else "future" if msg.startswith("Error extracting") else "other")
            args = record.args if isinstance(record.args, tuple) else (record.args,)
            et, ev = (record.exc_info[0], record.exc_info[1]) if record.exc_info else (None, None)
            rec = {"site": site, "msg": msg, "args": [str(a) for a in args],
                   "exc_type": et.__name__ if et else None, "exc_msg": str(ev)[:300] if ev else None,
                   "level": record.levelname}
            tap_write(rec)
        except Exception:  # a tap must never change behaviour
            pass


def tap_write(rec: dict) -> None:
    ctx = CTX
    if ctx is None or not ctx.tap_path:
        return
    fd = _os.open(ctx.tap_path, _os.O_WRONLY | _os.O_APPEND | _os.O_CREAT, 0o644)
    try:
        _os.write(fd, (json.dumps(rec, sort_keys=True) + "\n").encode())
    finally:
        _os.close(fd)


def read_tap(path) -> list[dict]:
    try:
        with open(path) as f:
            return [json.loads(line) for line in f if line.strip()]
    except FileNotFoundError:
        return []


def _wrap_rule(rule):
    """Pass-through recorder: records exceptions leaving check()/finalize().

    Installed on the rule's *class* (once), never on the instance: an instance attribute
    holding a closure over the rule would create a reference cycle and delay the release of
    the rule's resources (SQLite temp files) until a garbage collection that never happens
    in a pool worker - the harness must not change object lifetimes.
    """
    cls = type(rule)
    from src.core.base import BaseLintRule
    for name in ("check", "finalize"):
        orig = getattr(cls, name, None)
        if orig is None or getattr(orig, "_vsim_wrapped", False):
            continue
        if name == "finalize" and orig is getattr(BaseLintRule, "finalize", None):
            continue  # keep "does this rule override finalize()?" observable to the code under test

        def make(orig=orig, name=name):
            def wrapped(self, *a, **kw):
                try:
                    return orig(self, *a, **kw)
                except BaseException as e:
                    fp = None
                    if a and hasattr(a[0], "file_path"):
                        fp = str(a[0].file_path)
                    tap_write({"site": "recorder", "method": name, "rule": _rule_id(self), "file": fp,
                               "exc_type": type(e).__name__, "exc_msg": str(e)[:300]})
                    raise
            wrapped._vsim_wrapped = True
            wrapped.__name__ = name
            wrapped.__doc__ = getattr(orig, "__doc__", None)
            return wrapped
        try:
            setattr(cls, name, make())
        except (AttributeError, TypeError):
            pass


def _rule_id(rule):
    try:
        return rule.rule_id
    except Exception:
        return type(rule).__name__


_installed = False


def install():
    """Patch the seams (idempotent). Must run before any fork of simulated processes."""
    global _installed
    if _installed:
        return
    import src.orchestrator.core as core
    from src.core.registry import RuleRegistry

    core.os = _OsProxy()
    core.multiprocessing = _MpProxy()
    core.ProcessPoolExecutor = _pool_factory
    core.as_completed = _as_completed

    lg = logging.getLogger("src.orchestrator.core")
    lg.addHandler(_TapHandler())

    orig_register = RuleRegistry.register

    def register(self, rule):
        orig_register(self, rule)
        _wrap_rule(rule)

    RuleRegistry.register = register
    _installed = True


class StepCapExceeded(BaseException):
    """Raised from the LINE monitor when an operation exceeds its step budget (C11 oracle 4)."""


STEPS = {"n": 0, "cap": None}
_TOOL = 4


def _on_line(code, line):
    STEPS["n"] += 1
    cap = STEPS["cap"]
    if cap is not None and STEPS["n"] > cap:
        STEPS["cap"] = None  # raise once
        raise StepCapExceeded(f"more than {cap} line events")


def steps_start(cap):
    mon = sys.monitoring
    STEPS["n"], STEPS["cap"] = 0, cap
    try:
        mon.use_tool_id(_TOOL, "vsim")
    except ValueError:
        pass
    mon.register_callback(_TOOL, mon.events.LINE, _on_line)
    mon.set_events(_TOOL, mon.events.LINE)


def steps_stop() -> int:
    mon = sys.monitoring
    mon.set_events(_TOOL, 0)
    STEPS["cap"] = None
    return STEPS["n"]


class _FaultyFile:
    """File object whose write fails after `after` characters (probe-only: ENOSPC / EIO / crash)."""

    def __init__(self, f, kind, after, ctx):
        self._f, self._kind, self._left, self._ctx = f, kind, after, ctx

    def write(self, data):
        if len(data) > self._left:
            self._f.write(data[: self._left])
            self._f.flush()
            self._left = 0
            self._ctx.count("fault.write_" + self._kind)
            if self._kind == "kill":
                _os._exit(137)
            import errno
            raise OSError(errno.ENOSPC if self._kind == "enospc" else errno.EIO, _os.strerror(errno.ENOSPC if self._kind == "enospc" else errno.EIO))
        self._left -= len(data)
        return self._f.write(data)

    def __getattr__(self, name):
        return getattr(self._f, name)

    def __enter__(self):
        return self

    def __exit__(self, *a):
        return self._f.__exit__(*a)


def install_write_fault(prefix: str, kind: str, after: int) -> None:
    """Probe-only seam: the next text-mode write-open of a path under `prefix` gets a faulty file."""
    import io
    real_open = io.open
    state = {"armed": True}

    def faulty_open(file, mode="r", *a, **kw):
        f = real_open(file, mode, *a, **kw)
        try:
            path = _os.fspath(file)
        except TypeError:
            return f
        if state["armed"] and isinstance(path, str) and _os.path.abspath(path).startswith(prefix) and "w" in mode and "b" not in mode:
            state["armed"] = False
            return _FaultyFile(f, kind, after, CTX)
        return f

    io.open = faulty_open
    import builtins
    builtins.open = faulty_open


def repo_root() -> str:
    return _os.environ.get("VERIF_REPO", "/repo")


def assert_src_under_repo():
    import src
    root = _os.path.realpath(repo_root())
    f = _os.path.realpath(src.__file__)
    if not f.startswith(root + "/"):
        print(f"HARNESS-ERROR: src imported from {f}, expected under {root}", file=sys.stderr)
        sys.exit(2)
