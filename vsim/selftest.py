"""Determinism self-test (DESIGN 2.8).

Every run index is executed in separate interpreters: twice with the same scenario hash
seed (C digests must agree), with 4 and with 16 batch processes (a run's hash seed is tied to its
batch, so here all batches share one hash seed), and once more under a different hash seed
(H — harness decisions — must still agree; C may legitimately differ only if the repository
is hash-seed dependent, which C08 reports, so C is compared only for equal hash seeds).
"""
from __future__ import annotations

import shutil
import sys

from vsim.engine import launch


def _by_index(outputs):
    d = {}
    for o in outputs:
        for r in o["runs"]:
            d[r["index"]] = r
    return d


def selftest(props: list[str], seeds: int) -> int:
    bad = 0
    for pid in props:
        runs = {}
        configs = [("A", 16, [1111]), ("B", 16, [1111]), ("C", 4, [1111]), ("D", 16, [2222])]
        herr_all = []
        for name, nb, hs in configs:
            outs, herr, outdir = launch(pid, "quick", seed=7, runs=seeds, hashseeds=hs, nbatch=nb)
            shutil.rmtree(outdir, ignore_errors=True)
            runs[name] = _by_index(outs)
            herr_all += herr
        if herr_all:
            print(f"{pid}: harness errors during selftest: {herr_all[:2]}", file=sys.stderr)
            bad += 1
        idxs = sorted(runs["A"])
        mism_H = [i for i in idxs if not (runs["A"][i]["H"] == runs["B"].get(i, {}).get("H") == runs["C"].get(i, {}).get("H") == runs["D"].get(i, {}).get("H"))]
        mism_C = [i for i in idxs if not (runs["A"][i]["C"] == runs["B"].get(i, {}).get("C") == runs["C"].get(i, {}).get("C"))]
        seeddep = [i for i in idxs if runs["A"][i]["C"] != runs["D"].get(i, {}).get("C")]
        print(f"{pid}: {len(idxs)} run indices x 4 executions (16/16/4 batches, 2 hash seeds): "
              f"H mismatches {len(mism_H)}, C mismatches at equal hash seed {len(mism_C)}, "
              f"C differing across hash seeds {len(seeddep)} (reported by C08, not a harness fault)")
        if mism_H or mism_C or len(idxs) < seeds:
            print(f"  first H mismatches: {mism_H[:5]}  first C mismatches: {mism_C[:5]}")
            bad += 1
    return 1 if bad else 0
