"""vsim: deterministic simulation with fault injection for thai-lint (see /verif/DESIGN.md)."""
