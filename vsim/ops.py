"""Operations executed inside simulated processes (fresh oracle / subject), via procs.Zygote.

Each op takes one picklable dict and returns one. Repository code is called unmodified.
"""
from __future__ import annotations

import gc
import json
import os
import sys
import tempfile
from pathlib import Path

from vsim import seams
from vsim.tape import Tape


def enter(env: dict):
    """Make this process the simulated process described by env; returns the SimCtx."""
    if env.get("stack_dump"):
        from vsim import procs
        procs.arm_stack_dump()
    os.chdir(env["cwd"])
    os.environ["HOME"] = env["home"]
    os.environ["TMPDIR"] = env["tmp"]
    tempfile.tempdir = None
    for k in ("THAILINT_CONFIG", "XDG_CONFIG_HOME", "NO_COLOR", "COLUMNS"):
        os.environ.pop(k, None)
    import src.config as appcfg
    appcfg.CONFIG_LOCATIONS[:] = [  # exactly what a fresh import under this cwd/HOME computes
        Path.cwd() / "config.yaml",
        Path.cwd() / "config.json",
        Path.home() / ".config" / "{{PROJECT_NAME}}" / "config.yaml",
        Path.home() / ".config" / "{{PROJECT_NAME}}" / "config.json",
        Path("/etc/{{PROJECT_NAME}}/config.yaml"),
    ]
    t = env.get("tape") or {}
    tape = Tape(seed=t.get("seed", 0), recorded=t.get("values"))
    wt = env.get("walk_tape") or {}
    walk_tape = Tape(seed=wt.get("seed", 0), recorded=wt.get("values"))
    ctx = seams.SimCtx(tape=tape, walk_tape=walk_tape, walk=env.get("walk", "sorted"), pool=env.get("pool", "sim"),
                       cpu_count=env.get("cpu_count"), tap_path=env.get("tap"), knobs=env.get("knobs"))
    seams.set_ctx(ctx)
    return ctx


def vtuple(v) -> list:
    sev = getattr(v, "severity", None)
    sev = getattr(sev, "value", sev)
    return [v.rule_id, str(v.file_path), v.line, v.column, v.message,
            sev if isinstance(sev, (str, int, type(None))) else str(sev), getattr(v, "suggestion", None)]


def _finish(ctx, out: dict) -> dict:
    out["trace"] = ctx.tape.trace
    out["walk_trace"] = ctx.walk_tape.trace
    out["events"] = ctx.events
    out["counters"] = ctx.counters
    return out


def _paths(arg):
    return [Path(p) for p in arg["paths"]]


def api_call(arg: dict) -> dict:
    """Orchestrator-level call in a fresh process.

    arg: env, root, method in {lint_files, lint_files_parallel, lint_directory,
    lint_directory_parallel}, paths | dir, recursive, workers.
    """
    ctx = enter(arg["env"])
    from src.orchestrator.core import Orchestrator
    if arg.get("config_file"):
        from src.linter_config.loader import LinterConfigLoader
        orch = Orchestrator(project_root=Path(arg["root"]), config=LinterConfigLoader().load(Path(arg["config_file"])))
    else:
        orch = Orchestrator(project_root=Path(arg["root"]))
    m = arg["method"]
    if arg.get("steps_cap"):
        seams.steps_start(arg["steps_cap"])
        try:
            vs = _api_dispatch(orch, m, arg)
        finally:
            steps = seams.steps_stop()
        return _finish(ctx, {"violations": [vtuple(v) for v in vs], "steps": steps})
    vs = _api_dispatch(orch, m, arg)
    return _finish(ctx, {"violations": [vtuple(v) for v in vs]})


def _api_dispatch(orch, m, arg):
    if m == "lint_files":
        vs = orch.lint_files(_paths(arg))
    elif m == "lint_files_parallel":
        vs = orch.lint_files_parallel(_paths(arg), max_workers=arg.get("workers"))
    elif m == "lint_directory":
        vs = orch.lint_directory(Path(arg["dir"]), recursive=arg.get("recursive", True))
    elif m == "lint_directory_parallel":
        vs = orch.lint_directory_parallel(Path(arg["dir"]), recursive=arg.get("recursive", True),
                                          max_workers=arg.get("workers"))
    else:
        raise ValueError(m)
    return vs


def cli_call(arg: dict) -> dict:
    """Run the real click CLI in-process under CliRunner. arg: env, argv."""
    ctx = enter(arg["env"])
    wf = arg.get("write_fault")
    if wf:
        seams.install_write_fault(wf["prefix"], wf["kind"], wf["after"])
    from click.testing import CliRunner

    from src.cli import cli
    runner = CliRunner()
    res = runner.invoke(cli, arg["argv"], catch_exceptions=True)
    out = {"exit": res.exit_code, "stdout": res.stdout,
           "stderr": getattr(res, "stderr", "") or "",
           "exc": None}
    if res.exception is not None and not isinstance(res.exception, SystemExit):
        out["exc"] = f"{type(res.exception).__name__}: {res.exception}"
    del res
    gc.collect()
    return _finish(ctx, out)


def parse_cli_output(fmt: str, stdout: str):
    """Multiset-comparable form of a linter command's stdout. Returns (kind, items)."""
    if fmt == "json":
        try:
            doc = json.loads(stdout)
            return "json", sorted(json.dumps(v, sort_keys=True) for v in doc["violations"]), doc.get("total")
        except Exception:
            return "unparsed", sorted(stdout.splitlines()), None
    if fmt == "sarif":
        try:
            doc = json.loads(stdout)
            res = [r for run in doc["runs"] for r in run["results"]]
            return "sarif", sorted(json.dumps(r, sort_keys=True) for r in res), len(res)
        except Exception:
            return "unparsed", sorted(stdout.splitlines()), None
    lines = stdout.splitlines()
    # text: blocks of "  location / [SEV] rule: msg / blank"; compare as a multiset of blocks
    blocks, cur = [], []
    for ln in lines:
        if ln.strip() == "":
            if cur:
                blocks.append("\n".join(cur))
                cur = []
        else:
            cur.append(ln)
    if cur:
        blocks.append("\n".join(cur))
    return "text", sorted(blocks), None
