"""The world: a real directory tree on tmpfs behind owned seams (DESIGN 2.2)."""
from __future__ import annotations

import base64
import hashlib
import os
import shutil
import tempfile
from pathlib import Path


def scratch_base() -> Path:
    base = os.environ.get("VSIM_SCRATCH")
    if base:
        p = Path(base)
    elif os.path.isdir("/dev/shm") and os.access("/dev/shm", os.W_OK):
        p = Path("/dev/shm")
    else:
        p = Path(tempfile.gettempdir())
    return p


def enc(data: bytes | str) -> dict | str:
    """JSON form of file content: str for utf-8 text, {'b64':...} for anything else."""
    if isinstance(data, str):
        return data
    try:
        s = data.decode("utf-8")
        if s.encode("utf-8") == data and "\r" not in s:
            return s
    except UnicodeDecodeError:
        pass
    return {"b64": base64.b64encode(data).decode("ascii")}


def dec(v) -> bytes:
    if isinstance(v, str):
        return v.encode("utf-8")
    return base64.b64decode(v["b64"])


class World:
    """A scratch directory <base>/vsim-<pid>-<tag>/ holding proj/, home/, tmp/."""

    def __init__(self, tag: str):
        self.root = scratch_base() / f"vsim-{os.getpid()}-{tag}"
        if self.root.exists():
            shutil.rmtree(self.root)
        self.proj = self.root / "proj"
        self.home = self.root / "home"
        self.tmp = self.root / "tmp"
        for d in (self.proj, self.home, self.tmp):
            d.mkdir(parents=True)

    def write(self, rel: str, content, base: Path | None = None) -> None:
        p = (base or self.proj) / rel
        p.parent.mkdir(parents=True, exist_ok=True)
        p.write_bytes(dec(content))

    def delete(self, rel: str) -> None:
        p = self.proj / rel
        if p.exists():
            p.unlink()

    def populate(self, world: dict) -> None:
        for rel in sorted(world["files"]):
            self.write(rel, world["files"][rel])
        if world.get("config") is not None:
            self.write(".thailint.yaml", world["config"])
        for rel, content in sorted(world.get("extra", {}).items()):
            self.write(rel, content)

    def snapshot(self, base: Path | None = None) -> dict[str, tuple]:
        """path -> (kind, size, mtime_ns, sha256) for everything under base (default proj)."""
        base = base or self.proj
        out: dict[str, tuple] = {}
        for dirpath, dirnames, filenames in os.walk(base):
            dirnames.sort()
            rel_dir = os.path.relpath(dirpath, base)
            # a directory's mtime moves when an entry is created or removed in it, so a file that existed only
            # *during* an operation (created and deleted again) still shows up as a modified directory
            try:
                dm = os.lstat(dirpath).st_mtime_ns
            except OSError:
                dm = -1
            out["./" if rel_dir == "." else rel_dir + "/"] = ("d", 0, dm, "")
            for fn in sorted(filenames):
                p = os.path.join(dirpath, fn)
                rel = os.path.normpath(os.path.join(rel_dir, fn))
                try:
                    st = os.lstat(p)
                    with open(p, "rb") as f:
                        h = hashlib.sha256(f.read()).hexdigest()[:16]
                    out[rel] = ("f", st.st_size, st.st_mtime_ns, h)
                except OSError as e:  # vanished between walk and stat
                    out[rel] = ("?", 0, 0, type(e).__name__)
        return out

    def canon(self, s):
        """Replace the world root in any string by $W (paths and DRY messages)."""
        if isinstance(s, str):
            return s.replace(str(self.root), "$W")
        return s

    def destroy(self) -> None:
        shutil.rmtree(self.root, ignore_errors=True)


def diff_snapshots(a: dict, b: dict) -> list[str]:
    out = []
    for k in sorted(set(a) | set(b)):
        if k not in a:
            out.append(f"created {k}")
        elif k not in b:
            out.append(f"deleted {k}")
        elif a[k] != b[k]:
            out.append(f"modified {k}")
    return out
