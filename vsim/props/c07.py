"""C07 — --parallel reports exactly what the sequential run reports (DESIGN 4, C07).

Scenario: a generated multi-language project, W workers, F files around / above the
sequential-fallback threshold (2W), one of three parallel entry points, a SimPool schedule
and a walk permutation from the tape. Oracle: the same call without parallelism in a fresh
process on the same world with the same hash seed and the same walk permutation; compared
as multisets of complete violations (CLI: parsed output + exit status).
"""
from __future__ import annotations

import copy
import json

from vsim import pool as cpool
from vsim.engine import canon_violations, classify_diff, digest, multiset_diff
from vsim.ops import parse_cli_output
from vsim.seams import read_tap
from vsim.simpool import SHAPES, schedule_summary
from vsim.tape import Tape, mix
from vsim.world import World

ID = "C07"
RUNS = {"quick": 960, "thorough": 9600}
WALL = {"quick": 3600, "thorough": 8 * 3600}

CLI_CMDS = ["blocking-async", "clone-abuse", "dry", "file-header", "file-placement", "improper-logging",
            "lazy-ignores", "lbyl", "magic-numbers", "method-property", "nesting", "perf", "pipeline",
            "print-statements", "regex-in-loop", "srp", "stateless-class", "string-concat-loop",
            "stringly-typed", "unwrap-abuse"]


def gen(run_seed: int, tier: str) -> dict:
    t = Tape(seed=run_seed)
    entry = t.pick(["api-files", "api-dir", "cli", "cli"], "entry")
    if entry == "cli":
        cpu = 1 + t.draw(16, "cpu")
        W = min(8, cpu)
    else:
        cpu = None
        W = 1 + t.draw(16, "W") if t.chance(1, 2, "Wbig") else 1 + t.draw(5, "W")
    thr = 2 * W
    mode = t.draw(10, "Fmode")
    if mode < 5:
        F = max(1, thr - 2 + t.draw(5, "Fnear"))
    elif mode < 9:
        F = thr + t.draw(max(1, 41 - thr), "Fabove")
    else:
        F = 1 + t.draw(4, "Fsmall")
    F = max(1, min(F, 40))
    world = cpool.gen_world(t, F)
    world.pop("meta", None)
    rels = sorted(world["files"])
    sc = {"entry": entry, "W": W, "cpu": cpu, "world": world, "recursive": not t.chance(1, 6, "norec"),
          "knobs": {"shape": t.pick(SHAPES + ["random", "random"], "shape"),
                    "exec_at": t.pick(["dispatch", "finish"], "exec_at")},
          "abs": bool(t.draw(2, "abs")), "sched_seed": mix(run_seed, "sched"), "walk_seed": mix(run_seed, "walk")}
    if entry == "api-files":
        sc["targets"] = t.shuffle(rels, "order")
        if t.chance(1, 5, "cfgfile"):
            sc["targets"].append(".thailint.yaml")
    elif entry == "api-dir":
        sc["targets"] = ["."]
    else:
        sc["cmd"] = t.pick(CLI_CMDS + ["dry", "stringly-typed", "nesting"], "cmd")
        sc["fmt"] = t.pick(["json", "json", "sarif", "text"], "fmt")
        k = t.draw(4, "cli_targets")
        if k == 0:
            sc["targets"] = ["."]
        elif k == 1:
            sc["targets"] = t.shuffle(rels, "order")
        elif k == 2:
            dirs = sorted({r.split("/")[0] for r in rels if "/" in r})
            top = [r for r in rels if "/" not in r]
            sc["targets"] = t.shuffle(dirs + top, "order") or ["."]
        else:
            sc["targets"] = []  # defaults to "."
    # configuration that does NOT come from <root>/.thailint.yaml: an alternative file (--config / config=),
    # command-line overrides, a .thailintignore - a worker that re-reads the default config would differ
    if t.chance(1, 3, "altcfg"):
        world.setdefault("extra", {})["alt/lint-alt.yaml"] = cpool.gen_config(t)
        sc["alt_config"] = "alt/lint-alt.yaml"
    if t.chance(1, 4, "ignorefile"):
        world.setdefault("extra", {})[".thailintignore"] = "\n".join(t.sample(["tests/", "lib/", "*.js", "pkg/util/", "app/"], 1 + t.draw(2, "nign"), "ign")) + "\n"
    if entry == "cli" and t.chance(1, 2, "overrides"):
        opts = {"nesting": ["--max-depth", str(1 + t.draw(3, "ov"))], "srp": ["--max-methods", str(2 + t.draw(6, "ov"))],
                "dry": ["--min-lines", str(3 + t.draw(3, "ov"))], "pipeline": ["--min-continues", str(1 + t.draw(2, "ov"))]}
        sc["extra_args"] = opts.get(sc["cmd"], [])
    sc["xval"] = "real-pool" if t.chance(1, 10, "xval") else ("subprocess" if entry == "cli" and t.chance(1, 12, "xsub") else None)
    sc["exposure"] = {"kill_item": t.draw(F, "kill")} if t.chance(1, 16, "expo") else None
    return sc


def _env(W: World, sc: dict, parallel: bool, pool="sim") -> dict:
    env = {"cwd": str(W.proj), "home": str(W.home), "tmp": str(W.tmp), "walk": "tape",
           "walk_tape": {"seed": sc["walk_seed"], "values": sc.get("walk_tape")},
           "tape": {"seed": sc["sched_seed"], "values": sc.get("sched_tape")},
           "cpu_count": sc.get("cpu"), "knobs": dict(sc["knobs"]), "pool": pool,
           "tap": str(W.root / ("tap-par.jsonl" if parallel else "tap-seq.jsonl"))}
    return env


def _target_paths(W: World, sc: dict) -> list[str]:
    if sc["abs"]:
        return [str(W.proj / r) if r != "." else str(W.proj) for r in sc["targets"]]
    return list(sc["targets"])


def _call(zy, W: World, sc: dict, parallel: bool, pool="sim"):
    env = _env(W, sc, parallel, pool)
    if sc["entry"] == "cli":
        argv = [sc["cmd"], "--format", sc["fmt"]] + list(sc.get("extra_args") or [])
        if sc.get("alt_config"):
            argv += ["--config", str(W.proj / sc["alt_config"]) if sc["abs"] else sc["alt_config"]]
        if not sc["recursive"]:
            argv.append("--no-recursive")
        if parallel:
            argv.append("--parallel")
        argv += _target_paths(W, sc)
        return zy.call("vsim.ops:cli_call", {"env": env, "argv": argv}, timeout=600)
    arg = {"env": env, "root": str(W.proj), "recursive": sc["recursive"]}
    if sc.get("alt_config"):
        arg["config_file"] = str(W.proj / sc["alt_config"])
    if sc["entry"] == "api-files":
        arg["method"] = "lint_files_parallel" if parallel else "lint_files"
        arg["paths"] = _target_paths(W, sc)
    else:
        arg["method"] = "lint_directory_parallel" if parallel else "lint_directory"
        arg["dir"] = _target_paths(W, sc)[0]
    if parallel:
        arg["workers"] = sc["W"]
    return zy.call("vsim.ops:api_call", arg, timeout=600)


def _observable(W: World, sc: dict, out: dict):
    """-> (canonical multiset, exit status or None)"""
    if sc["entry"] == "cli":
        kind, items, total = parse_cli_output(sc["fmt"], W.canon(out["stdout"]))
        return [json.dumps([kind, it]) for it in items], out["exit"]
    return canon_violations(W, out["violations"]), None


def execute(zy, sc: dict) -> dict:
    W = World(f"c07-{sc.get('index', 0)}")
    try:
        return _execute(zy, sc, W)
    finally:
        W.destroy()


def _fail(sig, **detail):
    return {"sig": f"C07 {sig}", "detail": detail}


def _execute(zy, sc: dict, W: World) -> dict:
    W.populate(sc["world"])
    seq = _call(zy, W, sc, parallel=False)
    par = _call(zy, W, sc, parallel=True)
    failures, harness = [], None
    stats = {"entry": sc["entry"], "W": sc["W"], "F": len(sc["world"]["files"]), "shape": sc["knobs"]["shape"],
             "exec_at": sc["knobs"]["exec_at"], "trivial": True, "rules": [], "compared": 0}
    sc_out = copy.deepcopy(sc)
    Hparts = {"sc": {k: v for k, v in sc.items() if k not in ("hashseed", "index", "verif_seed")}}
    Cparts = {}
    entry = sc["entry"] if sc["entry"] != "cli" else "cli"
    if not seq["ok"] and not par["ok"] and seq.get("exc_type") == par.get("exc_type") and seq.get("kind") == "exception":
        # both raise the same way: not a parallel/sequential difference
        stats["both_raised"] = seq.get("exc_type")
    elif not seq["ok"] or not par["ok"]:
        which = "parallel" if seq["ok"] else "sequential"
        bad = par if seq["ok"] else seq
        if bad.get("kind") == "exception":
            failures.append(_fail(f"{which}-raised exc={bad.get('exc_type')} entry={entry}", exc=bad.get("exc"), tb=bad.get("tb")))
        else:
            failures.append(_fail(f"{which}-{bad.get('kind')} entry={entry}", status=bad.get("status")))
    else:
        so, po = seq["value"], par["value"]
        sc_out["sched_tape"] = po["trace"]
        sc_out["walk_tape"] = po["walk_trace"]
        # both runs draw their walk permutations from the same tape, so they see the same listing order as long
        # as they walk the same directories in the same sequence; if the code under test walks differently in
        # one mode, that is its behaviour (and shows up in the results), not a harness fault
        stats["walk_diverged"] = so["walk_trace"] != po["walk_trace"][:len(so["walk_trace"])]
        summ = schedule_summary(po["events"])
        Hparts["sched"] = po["trace"]
        Hparts["walk"] = po["walk_trace"]
        Hparts["events"] = po["events"]
        a, ea = _observable(W, sc, so)
        b, eb = _observable(W, sc, po)
        Cparts = {"seq": a, "par": b, "exit": [ea, eb]}
        stats["compared"] = len(a)
        rules = set()
        for x in a:
            try:
                v = json.loads(x)
                rules.add(v[0] if sc["entry"] != "cli" else json.loads(v[1]).get("rule_id", json.loads(v[1]).get("ruleId", "?")))
            except Exception:
                pass
        stats["rules"] = sorted(rules)
        stats["trivial"] = summ["W"] == 0 or len(a) == 0
        stats["fell_back"] = summ["W"] == 0
        stats["partition"] = summ["partition"]
        stats["sched_sig"] = digest([summ["W"], summ["submitted"], summ["partition"], summ["yield"], summ["per_worker"]])
        stats["events"] = len(po["events"])
        stats["forks"] = po["counters"].get("forks", 0)
        stats["tasks"] = po["counters"].get("tasks", 0)
        # invariants of the pool contract (each item dispatched once; yielded once when collected)
        pools, cur = [], None       # one segment per pool use (a CLI run over several directories uses several)
        for e in po["events"]:
            if e[0] == "submit" and (cur is None or cur["closed"]):
                cur = {"submit": 0, "dispatch": [], "yield": [], "closed": False}
                pools.append(cur)
            if cur is None:
                continue
            if e[0] == "submit":
                cur["submit"] += 1
            elif e[0] == "dispatch":
                cur["dispatch"].append(e[1])
            elif e[0] == "yield":
                cur["yield"].append(e[1])
            elif e[0] in ("shutdown", "broken"):
                cur["closed"] = True
        stats["pools"] = len(pools)
        for pl in pools:
            if sorted(pl["dispatch"]) != list(range(pl["submit"])) or len(set(pl["yield"])) != len(pl["yield"]):
                harness = "SimPool invariant broken: every submitted item is dispatched exactly once and yielded at most once"
        only_a, only_b = multiset_diff(a, b)
        if only_a or only_b:
            if sc["entry"] == "cli":
                ra = [json.dumps(_cli_item_fields(x)) for x in only_a]
                rb = [json.dumps(_cli_item_fields(x)) for x in only_b]
                kinds = classify_diff(ra, rb, "missing-in-parallel", "extra-in-parallel")
            else:
                kinds = classify_diff(only_a, only_b, "missing-in-parallel", "extra-in-parallel")
            for kind, rule in kinds:
                failures.append(_fail(f"{kind} rule={rule} entry={entry}", only_sequential=only_a[:6], only_parallel=only_b[:6],
                                      n_seq=len(a), n_par=len(b), schedule=summ))
        if ea != eb:
            failures.append(_fail(f"exit-status entry={entry}", sequential=ea, parallel=eb))
    if sc.get("xval") == "real-pool" and seq["ok"] and par["ok"]:
        rp = _call(zy, W, sc, parallel=True, pool="real")
        stats["xval_real_pool"] = 1
        if not rp["ok"]:
            failures.append(_fail(f"real-pool-{rp.get('kind')} exc={rp.get('exc_type')} entry={entry}", exc=rp.get("exc")))
        else:
            c, ec = _observable(W, sc, rp["value"])
            if c != Cparts["seq"] or ec != Cparts["exit"][0]:
                oa, ob = multiset_diff(Cparts["seq"], c)
                failures.append(_fail(f"real-pool-differs entry={entry}", only_sequential=oa[:6], only_parallel=ob[:6]))
    if sc.get("xval") == "subprocess" and seq["ok"] and par["ok"]:
        stats["xval_subprocess"] = 1
        r = _subprocess_pair(W, sc)
        if r is not None:
            failures.append(_fail(f"real-cli-differs entry=cli", **r))
    if sc.get("exposure") and seq["ok"] and par["ok"] and not stats.get("fell_back"):
        sc_k = copy.deepcopy(sc)
        sc_k["knobs"]["kill"] = {"item": sc["exposure"]["kill_item"]}
        kp = _call(zy, W, sc_k, parallel=True)
        expo = {"fired": 0}
        if kp["ok"]:
            expo["fired"] = kp["value"]["counters"].get("fault.worker_killed", 0)
            c, ec = _observable(W, sc, kp["value"])
            expo["exit"] = ec
            expo["lost_violations"] = len(multiset_diff(Cparts["seq"], c)[0])
            expo["swallowed_records"] = len(read_tap(str(W.root / "tap-par.jsonl")))
        else:
            expo["raised"] = kp.get("exc_type") or kp.get("kind")
        stats["exposure_kill"] = expo
    # de-duplicate signatures
    seen, uniq = set(), []
    for f in failures:
        if f["sig"] not in seen:
            seen.add(f["sig"])
            uniq.append(f)
    return {"failures": uniq, "stats": stats, "H": digest(Hparts), "C": digest(Cparts), "scenario": sc_out,
            "harness": harness}


def _subprocess_pair(W: World, sc: dict):
    """Real `python -m src.cli` processes, real pool, real walk order (schedule not controlled)."""
    import os
    import subprocess
    import sys
    env = dict(os.environ, HOME=str(W.home), TMPDIR=str(W.tmp), PYTHONHASHSEED=str(sc.get("hashseed", 0)))
    outs = []
    for parallel in (False, True):
        argv = [sys.executable, "-m", "src.cli", sc["cmd"], "--format", sc["fmt"]] + list(sc.get("extra_args") or [])
        if sc.get("alt_config"):
            argv += ["--config", str(W.proj / sc["alt_config"]) if sc["abs"] else sc["alt_config"]]
        if not sc["recursive"]:
            argv.append("--no-recursive")
        if parallel:
            argv.append("--parallel")
        argv += _target_paths(W, sc)
        r = subprocess.run(argv, cwd=str(W.proj), env=env, capture_output=True, text=True, timeout=600)
        kind, items, total = parse_cli_output(sc["fmt"], W.canon(r.stdout))
        outs.append((r.returncode, items))
    if outs[0] != outs[1]:
        oa, ob = multiset_diff(outs[0][1], outs[1][1])
        return {"exit": [outs[0][0], outs[1][0]], "only_sequential": oa[:6], "only_parallel": ob[:6]}
    return None


def _cli_item_fields(x: str) -> list:
    """Bring a CLI output item into [rule, file, line, column, message, severity] order where possible."""
    kind, item = json.loads(x)
    try:
        d = json.loads(item)
    except Exception:
        return ["cli-output", item, 0, 0, "", "", None]
    if kind == "json":
        return [d.get("rule_id"), d.get("file_path"), d.get("line"), d.get("column"), d.get("message"), d.get("severity"), None]
    if kind == "sarif":
        loc = (d.get("locations") or [{}])[0].get("physicalLocation", {})
        reg = loc.get("region", {})
        return [d.get("ruleId"), loc.get("artifactLocation", {}).get("uri"), reg.get("startLine"), reg.get("startColumn"),
                (d.get("message") or {}).get("text"), d.get("level"), None]
    return ["cli-output", item, 0, 0, "", "", None]


def cross_validate(zy, sc: dict) -> dict:
    """Same scenario through the real ProcessPoolExecutor; schedule-insensitive oracle only."""
    W = World(f"c07x-{sc.get('index', 0)}")
    try:
        W.populate(sc["world"])
        seq = _call(zy, W, sc, parallel=False)
        par = _call(zy, W, sc, parallel=True, pool="real")
        if not (seq["ok"] and par["ok"]):
            return {"agree": seq["ok"] == par["ok"], "detail": "raised"}
        a, ea = _observable(W, sc, seq["value"])
        b, eb = _observable(W, sc, par["value"])
        return {"agree": a == b and ea == eb, "n": len(a)}
    finally:
        W.destroy()


def shrink(sc: dict):
    """Candidates, simplest first: fewer files, fewer workers, simpler schedule, zero tapes."""
    files = sorted(sc["world"]["files"])
    n = len(files)
    # drop halves, then single files
    chunks = []
    size = n // 2
    while size >= 1:
        for i in range(0, n, size):
            chunks.append(files[i:i + size])
        size //= 2
    for drop in chunks[:24]:
        if len(drop) >= n:
            continue
        c = copy.deepcopy(sc)
        for r in drop:
            c["world"]["files"].pop(r, None)
        c["targets"] = [x for x in c["targets"] if x not in drop] or (["."] if sc["entry"] != "api-files" else [])
        if sc["entry"] == "api-files" and not c["targets"]:
            continue
        c.pop("sched_tape", None)
        c.pop("walk_tape", None)
        yield c
    if sc["W"] > 1:
        for w in sorted({1, sc["W"] // 2, sc["W"] - 1}):
            if 1 <= w < sc["W"]:
                c = copy.deepcopy(sc)
                c["W"] = w
                if c.get("cpu"):
                    c["cpu"] = w
                c.pop("sched_tape", None)
                yield c
    if sc["knobs"]["shape"] != "fifo":
        c = copy.deepcopy(sc)
        c["knobs"]["shape"] = "fifo"
        c.pop("sched_tape", None)
        yield c
    if sc.get("sched_tape") and any(sc["sched_tape"]):
        c = copy.deepcopy(sc)
        c["sched_tape"] = [0] * len(sc["sched_tape"])
        yield c
    if sc.get("walk_tape") and any(sc["walk_tape"]):
        c = copy.deepcopy(sc)
        c["walk_tape"] = [0] * len(sc["walk_tape"])
        yield c
    if sc["entry"] == "cli" and sc.get("fmt") != "json":
        c = copy.deepcopy(sc)
        c["fmt"] = "json"
        yield c


def _exposure(runs):
    ex = [r["stats"]["exposure_kill"] for r in runs if r["stats"].get("exposure_kill")]
    fired = [e for e in ex if e.get("fired")]
    return {"worker_killed_mid_item": {"injected": len(fired),
                                       "exit_0_or_1_with_lost_violations": sum(1 for e in fired if e.get("lost_violations")),
                                       "lost_violations_total": sum(e.get("lost_violations", 0) for e in fired),
                                       "swallowed_log_records": sum(e.get("swallowed_records", 0) for e in fired),
                                       "raised": sum(1 for e in fired if e.get("raised")),
                                       "note": "outside the statement (no faults granted): counted, never a VIOLATION"}}


def evidence(outputs: list[dict], tier: str, seed: int) -> dict:
    runs = [r for o in outputs for r in o["runs"]]
    nontrivial = [r for r in runs if not r["stats"].get("trivial")]
    distinct = {(r["stats"]["W"], r["stats"]["F"], r["stats"]["entry"], r["stats"].get("sched_sig")) for r in nontrivial}
    rules = sorted({x for r in runs for x in r["stats"].get("rules", [])})
    from collections import Counter
    shapes = Counter(r["stats"]["shape"] for r in nontrivial)
    entries = Counter(r["stats"]["entry"] for r in runs)
    side = Counter("fallback" if r["stats"].get("fell_back") else "pool" for r in runs)
    samples = []
    for r in nontrivial[:3]:
        samples.append({"index": r["index"], "W": r["stats"]["W"], "F": r["stats"]["F"], "entry": r["stats"]["entry"],
                        "shape": r["stats"]["shape"], "partition": r["stats"].get("partition"),
                        "violations_compared": r["stats"]["compared"], "rules": r["stats"]["rules"]})
    return {"coverage": {
        "evaluations": len(runs), "distinct_nontrivial": len(distinct),
        "rule": "one evaluation = one generated project linted sequentially and through SimPool under one tape-chosen "
                "schedule; non-trivial = the pool was used (F >= 2W) and >=1 violation was compared; distinct = distinct "
                "(W, F, entry point, schedule signature = digest of partition, per-worker item lists and yield order)",
        "samples": samples or [{"note": "no non-trivial run"}],
        "schedule_shapes": dict(shapes), "entry_points": dict(entries), "threshold_side": dict(side),
        "rule_ids_compared": rules,
        "simulated_events": sum(r["stats"].get("events", 0) for r in runs),
        "worker_forks": sum(r["stats"].get("forks", 0) for r in runs),
        "worker_tasks": sum(r["stats"].get("tasks", 0) for r in runs),
        "traces_validated_against_impl": sum(r["stats"].get("xval_real_pool", 0) + r["stats"].get("xval_subprocess", 0) for r in runs),
        "exposure_probes": _exposure(runs),
        "simulated_time": "not applicable: the code under test reads no clock; reported as simulated events",
        "fault_kinds_fired": {"none": "the statement grants no faults; see exposure_probes"},
        "real_vs_stub": {"real": "src/ (CLI, orchestrator, rules), click, tree-sitter, sqlite3, fork/pipe/pickle boundaries, tmpfs tree",
                         "stub": "ProcessPoolExecutor dispatch+completion (SimPool), os.walk order, cpu_count, PYTHONHASHSEED"},
    }, "assumptions": ["SimPool models the fork start method of ProcessPoolExecutor (Linux default on Python 3.12)",
                       "workers share nothing but the read-only project tree, so serial execution of work items covers their interleavings"]}
