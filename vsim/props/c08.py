"""C08 — results depend only on current contents and config, not order or history (DESIGN 4, C08).

A history is executed by a long-lived *subject* process (Linter/Orchestrator objects and module
singletons persist) over a project tree the driver edits between calls. After every lint
operation the subject's result is compared with what a *fresh oracle* process returns for the
same call on the current world (history independence; the oracle lists paths sorted and walks
sorted while the subject follows the tape's permutation: order independence). The same history
is executed by a mirror interpreter under another PYTHONHASHSEED (hash-seed independence).
Repetition and absence of side effects (project tree snapshot, TMPDIR) are checked on the way.
"""
from __future__ import annotations

import copy
import json
import os
import subprocess
import sys

from vsim import pool as cpool
from vsim.engine import VERIF, batch_env, canon_violations, classify_diff, digest, multiset_diff
from vsim.props.c07 import CLI_CMDS
from vsim.simpool import SHAPES
from vsim.tape import Tape, mix
from vsim.world import World, diff_snapshots

ID = "C08"
RUNS = {"quick": 224, "thorough": 2400}
WALL = {"quick": 3600, "thorough": 8 * 3600}
OP_TIMEOUT = 300
MIN_BUDGET = 36
MIN_PER_SIG = 18
LINT_APIS = ["linter", "linter", "linter", "orch_files", "orch_dir", "orch_files_par", "orch_dir_par", "cli"]


# ----------------------------------------------------------------------------- generation

def _gen_world2(t) -> dict:
    files = {}
    for i in range(2 + t.draw(3, "w2n")):
        lang = t.pick(["python", "typescript"], "w2lang")
        d = t.pick(["pkg", "src", "lib", ""], "w2dir")
        rel = (d + "/" if d else "") + f"other_{i}{cpool.LANG_EXT[lang]}"
        files[rel] = cpool.gen_file(t, lang, f"g{i}", [0] if t.chance(1, 2, "w2dup") else [], [])
    ign = "\n".join(t.sample(["pkg/", "src/", "lib/", "tests/", "*.ts"], 1 + t.draw(2, "nign"), "ign")) + "\n"
    return {"files": files, "config": cpool.gen_config(t), "extra": {".thailintignore": ign}}


def gen(run_seed: int, tier: str) -> dict:
    t = Tape(seed=run_seed)
    nfiles = 5 + t.draw(8, "nfiles")
    world = cpool.gen_world(t, nfiles)
    world2 = _gen_world2(t)
    if t.chance(1, 3, "nested_ignore"):
        # an ignore file that is NOT at the project root: it must have no effect, whichever file is linted first
        dirs0 = sorted({f.rsplit("/", 1)[0] for f in world["files"] if "/" in f})
        if dirs0:
            pats = t.sample(["*.py", "*.ts", "*.js", "helpers*", "utils*", "index*", "*_f1*", "*_f2*", "*_f3*"], 1 + t.draw(3, "npat"), "pats")
            world.setdefault("extra", {})[t.pick(dirs0, "ign_dir") + "/.thailintignore"] = "\n".join(pats) + "\n"
    if t.chance(1, 3, "root_ignore"):
        # a root ignore file from the start: directory patterns (trailing slash) and globs, in effect for every call
        dirs1 = sorted({f.split("/")[0] for f in world["files"] if "/" in f} | {"/".join(f.split("/")[:2]) for f in world["files"] if f.count("/") >= 2})
        pats = t.sample([d + "/" for d in dirs1] + ["*.rs", "index*", "build/"], 1 + t.draw(2, "nrootpat"), "rootpats")
        world.setdefault("extra", {}).setdefault(".thailintignore", "".join(p + "\n" for p in pats))
    files = dict(world["files"])            # generation-time model of the tree
    ndup, nstr = 3, 3
    ctor0 = t.pick(["linter", "linter", "linter_cfg", "orch", "orch_cfg"], "ctor")
    ops = [{"op": "new", "obj": "L0", "root": "proj", "ctor": ctor0}]
    live = {"L0": "proj"}
    ctors = {"L0": ctor0}
    cwd = "proj"
    nobj = 1
    uid = [0]

    meta = dict(world.get("meta", {}))

    def new_content(lang, rel=None):
        uid[0] += 1
        m = meta.get(rel) if rel else None
        if m and m["lang"] == lang and t.chance(1, 2, "same_meta"):
            # same planted duplicates / string sets, fresh draws for everything else (suppression
            # directives, surrounding blocks): the edit flips details of a file other files still relate to
            dups, strs = m["dups"], m["strs"]
        else:
            dups = [t.draw(ndup, "dupid")] if t.chance(2, 3, "hasdup") else []
            strs = [t.draw(nstr, "strid")] if t.chance(1, 2, "hasstr") else []
        if rel:
            meta[rel] = {"lang": lang, "dups": dups, "strs": strs}
        return cpool.gen_file(t, lang, f"e{uid[0]}", dups, strs)

    def lang_of(rel):
        for l, e in cpool.LANG_EXT.items():
            if rel.endswith(e):
                return l
        return "unknown"

    n = 6 + t.draw(10, "nops")
    for _ in range(n):
        k = t.draw(100, "opkind")
        if k < 55 or not files:
            obj = t.pick(sorted(live), "obj")
            rootname = live[obj]
            api = t.pick(LINT_APIS, "api")
            if ctors.get(obj, "linter").startswith("orch") and api == "linter":
                api = t.pick(["orch_files", "orch_dir"], "api_orch")     # a bare Orchestrator has no .lint()
            fs = sorted(files) if rootname == "proj" else sorted(world2["files"])
            dirs = sorted({f.split("/")[0] for f in fs if "/" in f})
            op = {"op": "lint", "obj": obj, "api": api, "root": rootname, "recursive": not t.chance(1, 8, "norec"),
                  "repeat": t.chance(1, 5, "repeat"), "shape": t.pick(SHAPES, "shape")}
            if api == "linter":
                kind = t.pick(["dir", "dir", "subdir", "file", "file"], "target")
                op["as_str"] = bool(t.draw(2, "as_str"))
                if t.chance(1, 5, "rules_filter"):
                    op["rules"] = t.sample(["nesting.excessive-depth", "dry.duplicate-code", "magic-numbers.numeric-literal", "srp.violation",
                                            "stringly-typed.repeated-validation", "file-placement"], 1 + t.draw(3, "nrules"), "rules")
            elif api in ("orch_dir", "orch_dir_par"):
                kind = t.pick(["dir", "subdir"], "target")
            elif api in ("orch_files", "orch_files_par"):
                kind = "files"
            else:
                kind = t.pick(["dir", "subdir", "file", "files", "mixed"], "target")
                op["cmd"] = t.pick(CLI_CMDS + ["dry", "dry", "stringly-typed"], "cmd")
                op["parallel"] = t.chance(1, 4, "cli_par")
            if api.endswith("_par"):
                op["W"] = 1 + t.draw(4, "W")
            if kind == "subdir" and not dirs:
                kind = "dir"
            if kind == "dir":
                op["targets"] = ["."]
            elif kind == "subdir":
                op["targets"] = [t.pick(dirs, "subdir")]
            elif kind == "file":
                op["targets"] = [t.pick(fs, "file")]
            elif kind == "files":
                op["targets"] = t.sample(fs, min(len(fs), 2 + t.draw(5, "nf")), "files")
            else:
                op["targets"] = t.sample(dirs + [f for f in fs if "/" not in f] + t.sample(fs, min(2, len(fs)), "mf"),
                                         2 + t.draw(2, "nm"), "mixed") or ["."]
            op["abs"] = True if cwd != rootname else bool(t.draw(2, "abs"))
            ops.append(op)
        elif k < 85:
            ev = t.pick(["edit", "edit", "delete", "add", "rename", "touch", "directive", "directive", "directive", "tweak", "tweak"], "event")
            fs = sorted(files)
            if ev == "tweak":
                # same size, same second: one digit of one number changes (a cache keyed by size or coarse mtime goes stale)
                import re as _re
                cands = [f for f in fs if _re.search(r"(?<![A-Za-z_0-9.])[2-9]\d(?![\d.])", files[f])]
                if cands:
                    rel = t.pick(cands, "rel")
                    ms = list(_re.finditer(r"(?<![A-Za-z_0-9.])[2-9]\d(?![\d.])", files[rel]))
                    m = ms[t.draw(len(ms), "which_num")]
                    old_num = m.group(0)
                    new_num = str(10 + (int(old_num) + 7 + t.draw(60, "delta")) % 90)
                    files[rel] = files[rel][:m.start()] + new_num + files[rel][m.end():]
                    ops.append({"op": "edit", "rel": rel, "content": files[rel], "why": "same-size-tweak"})
                continue
            if ev == "directive":
                # flip suppression directives in place, keeping everything else where it is
                with_dir = [f for f in fs if "dry: ignore" in files[f] or "thailint: ignore" in files[f]]
                plain = [f for f in fs if f.endswith(".py") and ("\ndef dup_" in files[f] or "    if mode in (" in files[f]) and f not in with_dir]
                if with_dir and (not plain or t.chance(2, 3, "strip")):
                    rel = t.pick(with_dir, "rel")
                    keep = []
                    for ln in files[rel].split("\n"):
                        code = ln.split("# thailint: ignore")[0].split("// thailint: ignore")[0]
                        if "dry: ignore" in ln or (("thailint: ignore" in ln) and not code.strip()):
                            if t.chance(1, 2, "keep_line_numbers"):
                                keep.append("")          # blank the directive line: nothing moves
                            continue
                        keep.append(code.rstrip() if "thailint: ignore" in ln else ln)
                    files[rel] = "\n".join(keep)
                    ops.append({"op": "edit", "rel": rel, "content": files[rel], "why": "strip-directives"})
                elif plain:
                    rel = t.pick(plain, "rel")
                    if "    if mode in (" in files[rel] and t.chance(1, 2, "which_dir"):
                        lines = files[rel].split("\n")
                        i = next(j for j, ln in enumerate(lines) if ln.startswith("    if mode in ("))
                        lines[i] += "  # thailint: ignore[stringly-typed]"
                        files[rel] = "\n".join(lines)
                    else:
                        files[rel] = files[rel].replace("\ndef dup_", "\n# dry: ignore-block\ndef dup_", 1)
                    ops.append({"op": "edit", "rel": rel, "content": files[rel], "why": "add-directive"})
            elif ev == "edit":
                rel = t.pick(fs, "rel")
                files[rel] = new_content(lang_of(rel), rel)
                ops.append({"op": "edit", "rel": rel, "content": files[rel]})
            elif ev == "delete" and len(fs) > 2:
                rel = t.pick(fs, "rel")
                del files[rel]
                ops.append({"op": "delete", "rel": rel})
            elif ev == "add":
                lang = t.pick(cpool.LANGS, "lang")
                uid[0] += 1
                d = t.pick(cpool.DIRS, "dir")
                rel = (d + "/" if d else "") + f"added_{uid[0]}{cpool.LANG_EXT[lang]}"
                files[rel] = new_content(lang, rel)
                ops.append({"op": "add", "rel": rel, "content": files[rel]})
            elif ev == "rename":
                rel = t.pick(fs, "rel")
                uid[0] += 1
                d = t.pick(cpool.DIRS, "dir")
                new = (d + "/" if d else "") + f"moved_{uid[0]}" + os.path.splitext(rel)[1]
                files[new] = files.pop(rel)
                if rel in meta:
                    meta[new] = meta.pop(rel)
                ops.append({"op": "rename", "rel": rel, "new": new})
            else:
                rel = t.pick(fs, "rel")
                ops.append({"op": "touch", "rel": rel})
        elif k < 92:
            name = f"L{nobj}"
            nobj += 1
            root = "proj" if t.chance(2, 3, "sameroot") else "proj2"
            live[name] = root
            ctors[name] = t.pick(["linter", "linter", "linter_cfg", "orch", "orch_cfg"], "ctor")
            ops.append({"op": "new", "obj": name, "root": root, "as_str": bool(t.draw(2, "as_str")), "ctor": ctors[name]})
        elif k < 96 and len(live) > 1:
            name = t.pick(sorted(live), "drop")
            del live[name]
            ops.append({"op": "drop", "obj": name})
        elif k < 97 and t.chance(1, 2, "reconfig"):
            # the user changes the project's configuration; every object built before is dropped (the library
            # reads configuration at construction) and a NEW object is built in the same long-lived process:
            # it must behave like a fresh process reading the new configuration
            dirs = sorted({f.split("/")[0] for f in files if "/" in f})
            which = t.pick(["ignorefile", "ignorefile", "yaml"], "cfg_which")
            if which == "ignorefile":
                pats = t.sample([d + "/" for d in dirs] + ["*.ts", "*.js", "*.rs", "helpers*", "utils*", "index*", "main*"],
                                t.draw(3, "npat"), "pats")
                ops.append({"op": "reconfig", "file": ".thailintignore", "content": "".join(p + "\n" for p in pats)})
            else:
                ops.append({"op": "reconfig", "file": ".thailint.yaml", "content": cpool.gen_config(t)})
            for name in [n for n, r in live.items() if r == "proj"]:
                del live[name]
            name = f"L{nobj}"
            nobj += 1
            live[name] = "proj"
            ctors[name] = t.pick(["linter", "linter_cfg", "orch", "orch_cfg"], "ctor")
            ops[-1]["new_obj"] = name
            ops[-1]["ctor"] = ctors[name]
        elif k < 98:
            dirs = sorted({f.split("/")[0] for f in files if "/" in f})
            cwd = t.pick(["proj", "proj", "home", "proj2"] + [f"proj/{d}" for d in dirs[:2]], "cwd")
            ops.append({"op": "chdir", "to": cwd})
            if cwd.startswith("proj/"):
                cwd = "sub"
        else:
            # one-shot CLI process: every linter command, sequential/parallel, for the side-effect oracle
            fs = sorted(files)
            ops.append({"op": "oneshot", "cmd": t.pick(CLI_CMDS, "cmd"), "parallel": bool(t.draw(2, "par")),
                        "targets": t.pick([["."], t.sample(fs, min(len(fs), 3), "of")], "ot"), "cpu": 1 + t.draw(8, "cpu")})
    if not any(o["op"] == "oneshot" for o in ops):
        ops.append({"op": "oneshot", "cmd": t.pick(CLI_CMDS, "cmd"), "parallel": bool(t.draw(2, "par")),
                    "targets": ["."], "cpu": 1 + t.draw(8, "cpu")})
    world.pop("meta", None)
    world2.pop("meta", None)
    return {"world": world, "world2": world2, "ops": ops, "mirror": True}


# ----------------------------------------------------------------------------- mirror (second hash seed)

class Mirror:
    def __init__(self, hashseed: int):
        self.hashseed = hashseed
        cmd = [sys.executable, str(VERIF / "vsim" / "main.py"), "mirror", ID]
        self.p = subprocess.Popen(cmd, env=batch_env(hashseed), stdin=subprocess.PIPE, stdout=subprocess.PIPE,
                                  text=True, cwd=str(VERIF))

    def run(self, sc: dict) -> dict:
        self.p.stdin.write(json.dumps(sc) + "\n")
        self.p.stdin.flush()
        line = self.p.stdout.readline()
        if not line:
            raise RuntimeError("mirror interpreter died")
        return json.loads(line)

    def close(self):
        try:
            self.p.stdin.close()
            self.p.wait(30)
        except Exception:
            self.p.kill()


_MIRRORS: dict[int, Mirror] = {}


def _mirror(hs: int) -> Mirror:
    m = _MIRRORS.get(hs)
    if m is None or m.p.poll() is not None:
        m = _MIRRORS[hs] = Mirror(hs)
    return m


def cleanup():
    for m in _MIRRORS.values():
        m.close()
    _MIRRORS.clear()


# ----------------------------------------------------------------------------- execution

def _fail(cls, what, rule="none", op="none", **detail):
    return {"sig": f"C08 {cls} {what} rule={rule} op={op}", "detail": detail}


class _Run:
    def __init__(self, zy, sc, W: World):
        self.zy, self.sc, self.W = zy, sc, W
        self.proj2 = W.root / "proj2"
        self.cwd = "proj"
        self.objs: dict[str, dict] = {}
        self.failures: list[dict] = []
        self.steps: list[dict] = []
        self.stats = {"ops": [o["op"] + (":" + o["api"] if o["op"] == "lint" else "") for o in sc["ops"]],
                      "residue_pairs": [], "events_between": 0, "lint_ops": 0, "tmp_held": 0, "diag_cwd": 0,
                      "trivial": True, "oneshots": []}
        self.seen_files: set[str] = set()     # files some lint op has seen so far
        self.pending_events = 0
        self.harness = None
        self.tmp_n = 0

    def path_of(self, name: str) -> str:
        if name == "proj":
            return str(self.W.proj)
        if name == "proj2":
            return str(self.proj2)
        if name == "home":
            return str(self.W.home)
        if name.startswith("proj/"):
            return str(self.W.proj / name[5:])
        return str(self.W.proj)

    def env(self, tape_seed, values, walk, tmp, shape="random", cpu=None):
        os.makedirs(tmp, exist_ok=True)
        cwd = self.path_of(self.cwd)
        if not os.path.isdir(cwd):
            cwd = str(self.W.proj)
        return {"cwd": cwd, "home": str(self.W.home), "tmp": tmp, "walk": walk,
                "tape": {"seed": tape_seed, "values": values}, "walk_tape": {"seed": mix(tape_seed, "walk"), "values": None},
                "knobs": {"shape": shape, "exec_at": "dispatch"}, "cpu_count": cpu, "tap": None}

    def targets(self, op, permuted: bool, tape: Tape | None):
        base = self.path_of(op["root"])
        ts = list(op["targets"]) if permuted else sorted(op["targets"])
        if op["abs"]:
            return [base if x == "." else os.path.join(base, x) for x in ts]
        return ts


def execute(zy, sc: dict) -> dict:
    res = execute_plain(zy, sc)
    if sc.get("mirror") and not res.get("harness"):
        hs2 = sc.get("hashseed2") or (1 + mix(sc.get("hashseed", 0), "mirror") % 4000000000)
        res["scenario"]["hashseed2"] = hs2
        try:
            m = _mirror(hs2).run(dict(res["scenario"], mirror=False))
        except Exception as e:
            res["harness"] = f"mirror failed: {e}"
            return res
        if m.get("harness"):
            res["harness"] = f"mirror harness: {m['harness']}"
        elif m["H"] != res["H"]:
            res["harness"] = "H digest differs between hash seeds (harness nondeterminism)"
        else:
            for i, (a, b) in enumerate(zip(res["step_results"], m["step_results"])):
                if a["canon"] != b["canon"] or a["exit"] != b["exit"]:
                    oa, ob = multiset_diff(a["canon"], b["canon"])
                    kinds = classify_diff(oa, ob, "missing", "extra") or [("exit", "none")]
                    for kind, rule in kinds:
                        res["failures"].append(_fail("hashseed", kind, rule, a["api"], step=a["step"], hashseeds=[sc.get("hashseed"), hs2],
                                                     only_first=oa[:5], only_second=ob[:5]))
                    break
        res["stats"]["mirrored"] = 1
    res.pop("step_results", None)
    return res


def execute_plain(zy, sc: dict) -> dict:
    W = World(f"c08-{sc.get('index', 0)}")
    try:
        return _execute(zy, sc, W)
    finally:
        W.destroy()


def _canon2(W, run, vs):
    return canon_violations(W, vs)


def _execute(zy, sc: dict, W: World) -> dict:
    W.populate(sc["world"])
    run = _Run(zy, sc, W)
    w2 = sc["world2"]
    for rel in sorted(w2["files"]):
        W.write(rel, w2["files"][rel], base=run.proj2)
    W.write(".thailint.yaml", w2["config"], base=run.proj2)
    for rel, c in sorted(w2.get("extra", {}).items()):
        W.write(rel, c, base=run.proj2)
    sid = zy.spawn()
    subj_tmp = str(W.tmp / "subject")
    sc_out = copy.deepcopy(sc)
    Hops = []
    alive = True
    for i, op in enumerate(sc["ops"]):
        if not alive:
            break
        kind = op["op"]
        seed_i = mix(sc.get("seed", 0), "op", i)
        if kind in ("edit", "add"):
            W.write(op["rel"], op["content"])
            if op["rel"] in run.seen_files or kind == "add":
                run.pending_events += 1
        elif kind == "delete":
            W.delete(op["rel"])
            if op["rel"] in run.seen_files:
                run.pending_events += 1
        elif kind == "rename":
            src, dst = W.proj / op["rel"], W.proj / op["new"]
            if src.exists():
                dst.parent.mkdir(parents=True, exist_ok=True)
                src.rename(dst)
                if op["rel"] in run.seen_files:
                    run.pending_events += 1
        elif kind == "touch":
            p = W.proj / op["rel"]
            if p.exists():
                st = p.stat()
                os.utime(p, ns=(st.st_atime_ns + 5_000_000_000, st.st_mtime_ns + 5_000_000_000))
        elif kind == "chdir":
            run.cwd = op["to"]
        elif kind == "reconfig":
            for name in [n for n, o in run.objs.items() if o["root"] == "proj"]:
                zy.scall(sid, "vsim.subject:s_drop", {"env": run.env(seed_i, None, "tape", subj_tmp), "name": name}, timeout=60)
                run.objs.pop(name, None)
            if op["content"]:
                W.write(op["file"], op["content"])
            else:
                W.delete(op["file"])
            r = zy.scall(sid, "vsim.subject:s_new", {"env": run.env(seed_i, None, "tape", subj_tmp), "name": op["new_obj"],
                                                      "root": run.path_of("proj"), "ctor": op.get("ctor")}, timeout=60)
            if not r["ok"]:
                run.failures.append(_fail("history", "constructor-raised", op="reconfig", exc=r.get("exc_type"), msg=r.get("exc")))
                alive = r.get("kind") == "exception"
            run.objs[op["new_obj"]] = {"root": "proj", "first_cwd": None, "as_str": None, "ctor": op.get("ctor")}
            run.pending_events += 1
        elif kind == "new":
            r = zy.scall(sid, "vsim.subject:s_new", {"env": run.env(seed_i, None, "tape", subj_tmp), "name": op["obj"],
                                                      "root": run.path_of(op["root"]), "as_str": op.get("as_str"), "ctor": op.get("ctor")}, timeout=60)
            if not r["ok"]:
                run.failures.append(_fail("history", "constructor-raised", op="new", exc=r.get("exc_type"), msg=r.get("exc")))
                alive = r.get("kind") == "exception"
            run.objs[op["obj"]] = {"root": op["root"], "first_cwd": None, "as_str": op.get("as_str"), "ctor": op.get("ctor")}
        elif kind == "drop":
            zy.scall(sid, "vsim.subject:s_drop", {"env": run.env(seed_i, None, "tape", subj_tmp), "name": op["obj"]}, timeout=60)
            run.objs.pop(op["obj"], None)
        elif kind == "lint":
            if op["obj"] not in run.objs and op["api"] != "cli":
                continue
            alive = _lint_step(run, sid, i, op, seed_i, subj_tmp, sc_out)
        elif kind == "oneshot":
            _oneshot(run, i, op, seed_i)
        Hops.append([kind, op.get("api"), run.cwd])
    # ---- subject drops everything and exits: nothing may be left in its TMPDIR
    if alive:
        for name in list(run.objs):
            zy.scall(sid, "vsim.subject:s_drop", {"env": run.env(0, None, "sorted", subj_tmp), "name": name}, timeout=60)
        zy.sclose(sid, exit="finalize")
        left = _listdir(subj_tmp)
        if left:
            run.failures.append(_fail("tmp-left", "subject-exit", op="history", left=left[:5]))
    seen, uniq = set(), []
    for f in run.failures:
        if f["sig"] not in seen:
            seen.add(f["sig"])
            uniq.append(f)
    run.stats["trivial"] = not (run.stats["lint_ops"] >= 2 and run.stats["events_between"] >= 1)
    run.stats["opseq_sig"] = digest(run.stats["ops"])
    H = digest({"ops": [{k: v for k, v in o.items() if k not in ("tape", "order_tape")} for o in sc["ops"]], "world": sc["world"], "world2": sc["world2"], "walk": [s.get("walk") for s in run.steps],
                "sched": [s.get("sched") for s in run.steps]})
    C = digest([[s["canon"], s["exit"]] for s in run.steps])
    return {"failures": uniq, "stats": run.stats, "H": H, "C": C, "scenario": sc_out, "harness": run.harness,
            "step_results": [{"step": s["step"], "api": s["api"], "canon": s["canon"], "exit": s["exit"]} for s in run.steps]}


def _listdir(d):
    try:
        return sorted(os.listdir(d))
    except FileNotFoundError:
        return []


def _lint_step(run: _Run, sid, i, op, seed_i, subj_tmp, sc_out) -> bool:
    W, zy = run.W, run.zy
    sop = {k: op.get(k) for k in ("api", "obj", "recursive", "W", "as_str", "cmd", "parallel", "rules")}
    obj = run.objs.get(op["obj"], {"root": op["root"], "first_cwd": run.cwd})
    # ---- subject: tape-permuted arguments and walk order
    tape_vals = op.get("tape")
    order_tape = Tape(seed=mix(seed_i, "order"), recorded=op.get("order_tape"))
    perm_targets = order_tape.shuffle(list(op["targets"]), "order")
    sc_out["ops"][i]["order_tape"] = order_tape.trace
    sop_s = dict(sop, paths=run.targets(dict(op, targets=perm_targets), True, None))
    snap0 = W.snapshot()
    r = zy.scall(sid, "vsim.subject:s_lint", {"env": run.env(seed_i, tape_vals, "tape", subj_tmp, op.get("shape", "random")),
                                               "op": sop_s, "repeat": op.get("repeat")}, timeout=OP_TIMEOUT)
    snap1 = W.snapshot()
    api = op["api"]
    if not r["ok"]:
        if r.get("kind") == "exception":
            # the fresh oracle decides whether raising is history-dependent
            subj = {"raised": r.get("exc_type")}
        else:
            run.failures.append(_fail("history", f"subject-{r.get('kind')}", op=api, step=i))
            return False
    else:
        subj = r["value"]
        sc_out["ops"][i]["tape"] = subj["trace"]
    d = diff_snapshots(snap0, snap1)
    if d:
        run.failures.append(_fail("project-modified", d[0].split()[0], op=api, step=i, changes=d[:6], where="subject"))
    run.stats["lint_ops"] += 1
    if run.pending_events and run.stats["lint_ops"] > 1:
        run.stats["events_between"] += run.pending_events
    run.pending_events = 0
    if obj.get("first_cwd") is None:
        obj["first_cwd"] = run.cwd
    run.stats["tmp_held"] = max(run.stats["tmp_held"], len(_listdir(subj_tmp)))
    # ---- fresh oracle: sorted arguments, sorted walk, own TMPDIR, exits through finalisation
    run.tmp_n += 1
    otmp = str(W.tmp / f"oracle-{run.tmp_n}")
    sop_o = dict(sop, paths=run.targets(op, False, None))
    oarg = {"env": run.env(seed_i, None, "sorted", otmp, "fifo"), "op": sop_o, "root": run.path_of(obj["root"]), "as_str": obj.get("as_str"),
            "ctor": obj.get("ctor")}
    o = zy.call("vsim.subject:o_lint", oarg, timeout=OP_TIMEOUT, exit="finalize")
    snap2 = W.snapshot()
    d = diff_snapshots(snap1, snap2)
    if d:
        run.failures.append(_fail("project-modified", d[0].split()[0], op=api, step=i, changes=d[:6], where="fresh"))
    left = _listdir(otmp)
    if left:
        run.failures.append(_fail("tmp-left", "process-exit", op=api, step=i, left=left[:5]))
    if not o["ok"]:
        if o.get("kind") == "exception" and "raised" in subj and subj["raised"] == o.get("exc_type"):
            run.steps.append({"step": i, "api": api, "canon": [f"raised {o.get('exc_type')}"], "exit": None})
            return True
        if o.get("kind") == "exception":
            run.failures.append(_fail("history", "fresh-raised", op=api, step=i, exc=o.get("exc_type"), msg=o.get("exc")))
            return "raised" not in subj
        run.failures.append(_fail("history", f"fresh-{o.get('kind')}", op=api, step=i))
        return True
    if "raised" in subj:
        run.failures.append(_fail("history", "subject-raised", rule=subj["raised"], op=api, step=i, msg=r.get("exc"), tb=r.get("tb")))
        return True
    a = canon_violations(W, subj["violations"])
    b = canon_violations(W, o["value"]["violations"])
    for v in subj["violations"]:
        pass
    run.steps.append({"step": i, "api": api, "canon": a, "exit": subj.get("exit"), "walk": subj.get("walk_trace"), "sched": subj.get("trace")})
    run.stats["residue_pairs"].append(",".join(subj.get("residue", [])) + "|" + api)
    for t in op["targets"]:
        run.seen_files.update(f for f in _world_files(W) if t == "." or f == t or f.startswith(t.rstrip("/") + "/"))
    if op.get("repeat") and canon_violations(W, subj.get("repeat", [])) != a:
        oa, ob = multiset_diff(a, canon_violations(W, subj["repeat"]))
        for kind, rule in classify_diff(oa, ob, "missing", "extra"):
            run.failures.append(_fail("repeat", kind, rule, api, step=i, only_first=oa[:5], only_second=ob[:5]))
    if a != b or subj.get("exit") != o["value"].get("exit"):
        oa, ob = multiset_diff(b, a)   # relative to fresh: missing = fresh has it, used object lacks it
        # label: does the order alone explain it?  re-run a fresh oracle with the subject's permutation
        o2 = zy.call("vsim.subject:o_lint", dict(oarg, env=run.env(seed_i, subj.get("trace"), "tape", otmp + "p", "fifo"), op=sop_s),
                     timeout=OP_TIMEOUT, exit="_exit")
        cls = "history"
        if o2["ok"] and canon_violations(W, o2["value"]["violations"]) == a and o2["value"].get("exit") == subj.get("exit"):
            cls = "order"
        elif obj.get("first_cwd") not in (None, run.cwd) and api != "cli":
            # diagnostic: is it the working directory at rule-construction time?
            o3 = zy.call("vsim.subject:o_lint", dict(oarg, prime_cwd=run.path_of(obj["first_cwd"]), op=sop_s,
                                                     env=run.env(seed_i, subj.get("trace"), "tape", otmp + "d", "fifo")),
                         timeout=OP_TIMEOUT, exit="_exit")
            run.stats["diag_cwd"] += 1
            if o3["ok"] and canon_violations(W, o3["value"]["violations"]) == a:
                run.failures.append(_fail("history", "used!=fresh cause=construction-cwd", rule="repo-ignore", op="any", step=i,
                                          first_lint_cwd=obj["first_cwd"], cwd_now=run.cwd, only_fresh=oa[:5], only_used=ob[:5]))
                return True
        kinds = classify_diff(oa, ob, "missing", "extra") or [("exit", "none")]
        for kind, rule in kinds:
            run.failures.append(_fail(cls, kind, rule, api, step=i, only_fresh=oa[:5], only_used=ob[:5],
                                      exits=[o["value"].get("exit"), subj.get("exit")], residue=subj.get("residue")))
    return True


def _world_files(W: World):
    out = []
    for dp, dn, fn in os.walk(W.proj):
        for f in fn:
            out.append(os.path.relpath(os.path.join(dp, f), W.proj))
    return out


def _oneshot(run: _Run, i, op, seed_i):
    """A CLI command as its own short-lived process: side-effect oracle and order oracle."""
    W, zy = run.W, run.zy
    outs = []
    for variant in ("sorted", "tape"):
        run.tmp_n += 1
        tmp = str(W.tmp / f"oneshot-{run.tmp_n}")
        env = run.env(seed_i, None, variant, tmp, "random", cpu=op.get("cpu"))
        env["cwd"] = str(W.proj)
        targets = sorted(op["targets"]) if variant == "sorted" else Tape(seed=mix(seed_i, "os")).shuffle(list(op["targets"]))
        argv = [op["cmd"], "--format", "json"] + (["--parallel"] if op.get("parallel") else []) + targets
        snap0 = W.snapshot()
        r = zy.call("vsim.ops:cli_call", {"env": env, "argv": argv}, timeout=OP_TIMEOUT, exit="finalize")
        d = diff_snapshots(snap0, W.snapshot())
        tag = op["cmd"] + ("+parallel" if op.get("parallel") else "")
        if d:
            run.failures.append(_fail("project-modified", d[0].split()[0], op=f"cli:{tag}", step=i, changes=d[:6]))
        left = _listdir(tmp)
        if left:
            run.failures.append(_fail("tmp-left", "process-exit", op=f"cli:{tag}", step=i, left=left[:5]))
        if r["ok"]:
            outs.append((r["value"]["exit"], sorted(W.canon(r["value"]["stdout"]).splitlines())))
    run.stats["oneshots"].append(op["cmd"] + ("+parallel" if op.get("parallel") else ""))
    if len(outs) == 2 and outs[0] != outs[1]:
        run.failures.append(_fail("order", "cli-output", op=f"cli:{op['cmd']}", step=i, exits=[outs[0][0], outs[1][0]]))


# ----------------------------------------------------------------------------- shrinking

def shrink(sc: dict):
    if sc.get("mirror"):
        c = copy.deepcopy(sc)
        c["mirror"] = False     # halves the cost of every later candidate unless the hash seed matters
        yield c
    ops = sc["ops"]
    n = len(ops)
    size = max(1, n // 2)
    while size >= 1:
        for k in range(1, n, size):     # never drop op 0 (creates L0)
            c = copy.deepcopy(sc)
            del c["ops"][k:k + size]
            if any(o["op"] == "lint" or o["op"] == "oneshot" for o in c["ops"]):
                yield c
        if size == 1:
            break
        size //= 2
    files = sorted(sc["world"]["files"])
    used = {t for o in ops if o["op"] in ("lint", "oneshot") for t in o.get("targets", [])} | {o.get("rel") for o in ops}
    for rel in files:
        if rel not in used and len(files) > 1:
            c = copy.deepcopy(sc)
            del c["world"]["files"][rel]
            yield c
    for k, o in enumerate(ops):
        if o["op"] == "lint" and (o.get("tape") and any(o["tape"])):
            c = copy.deepcopy(sc)
            c["ops"][k]["tape"] = [0] * len(o["tape"])
            yield c
        if o["op"] == "lint" and o.get("order_tape") and any(o["order_tape"]):
            c = copy.deepcopy(sc)
            c["ops"][k]["order_tape"] = [0] * len(o["order_tape"])
            yield c


# ----------------------------------------------------------------------------- evidence

def evidence(outputs: list[dict], tier: str, seed: int) -> dict:
    from collections import Counter
    runs = [r for o in outputs for r in o["runs"]]
    nontrivial = [r for r in runs if not r["stats"].get("trivial")]
    opseq = {r["stats"]["opseq_sig"] for r in nontrivial}
    pairs = Counter(p for r in runs for p in r["stats"]["residue_pairs"])
    opkinds = Counter(o for r in runs for o in r["stats"]["ops"])
    oneshots = Counter(o for r in runs for o in r["stats"]["oneshots"])
    samples = [{"index": r["index"], "ops": r["stats"]["ops"], "events_between_lint_calls": r["stats"]["events_between"]}
               for r in nontrivial[:3]]
    return {"coverage": {
        "evaluations": len(runs), "distinct_nontrivial": len(opseq),
        "rule": "one evaluation = one history (6-16 operations on a long-lived subject process: lint calls through 8 entry "
                "points, file edits/deletes/adds/renames, new/dropped objects, chdir, one-shot CLI processes), every lint "
                "call compared with a fresh-process oracle, the whole history repeated under a second hash seed; "
                "non-trivial = >=2 lint calls with >=1 world event on a file an earlier call saw in between; distinct = "
                "distinct operation-kind sequences",
        "samples": samples or [{"note": "no non-trivial history"}],
        "operation_kinds": dict(opkinds),
        "distinct_residue_x_next_op": len(pairs), "residue_x_next_op_top": dict(pairs.most_common(12)),
        "world_events_between_lint_calls": sum(r["stats"]["events_between"] for r in runs),
        "lint_calls_compared_with_fresh_oracle": sum(r["stats"]["lint_ops"] for r in runs),
        "histories_mirrored_under_second_hash_seed": sum(r["stats"].get("mirrored", 0) for r in runs),
        "oneshot_cli_commands": dict(oneshots),
        "temp_files_held_by_live_subject_max": max([r["stats"]["tmp_held"] for r in runs] or [0]),
        "construction_cwd_diagnostics_run": sum(r["stats"]["diag_cwd"] for r in runs),
        "simulated_events": sum(len(r["stats"]["ops"]) for r in runs),
        "simulated_time": "not applicable: no clock in the code under test; reported as operations",
        "fault_kinds_fired": {k: v for k, v in opkinds.items() if k in ("edit", "delete", "add", "rename", "touch", "chdir", "drop", "new")},
        "real_vs_stub": {"real": "src/ (Linter, Orchestrator, rules, CLI), sqlite3, tempfile, real tmpfs tree, real process images (fork)",
                         "stub": "os.walk order, argument order, pool scheduling (SimPool), PYTHONHASHSEED, cwd/HOME/TMPDIR placement"},
    }, "assumptions": ["configuration is fixed for the lifetime of a subject (the library reads it at construction)",
                       "'fresh' = a new process image forked from a zygote that never executed lint code",
                       "Orchestrator.lint_file (the non-finalising per-file primitive) is not a history operation"]}
