"""C11 — no input makes a linter crash, hang, or silently drop its analysis (DESIGN 4, C11).

Scenario: a healthy generated project plus 1-3 offenders, each a pool file (or an empty one)
to which a tape-chosen sequence of storage/content faults is applied. The directory is then
linted at API level (sequential, with a step counter), through SimPool (real forked workers)
and through tape-chosen CLI commands.

Oracles: (1) CLI exit status in {0,1}; (2) no swallowed failure (logger tap + registry
recorder, in parent and worker processes); (3) sibling isolation against a baseline run
without the offenders; (4) bounded termination (line-event cap; wall clock for C code).
"""
from __future__ import annotations

import copy
import json
import os

from vsim import faults
from vsim import pool as cpool
from vsim.engine import canon_violations, digest, multiset_diff
from vsim.props.c07 import CLI_CMDS
from vsim.seams import read_tap
from vsim.tape import Tape, mix
from vsim.world import World, dec, enc

ID = "C11"
RUNS = {"quick": 480, "thorough": 6400}
WALL = {"quick": 3600, "thorough": 8 * 3600}

STEP_CAP_BASE = 50_000_000      # >= 16x the largest count observed on the unchanged tree without many_funcs (3.1M)
STEP_CAP_HEAVY = 20_000_000_000  # many_funcs inputs are super-linear in the pinned tree (2000 functions: 84M events)
OP_TIMEOUT = 300          # heavy (many_funcs) scenarios
OP_TIMEOUT_LIGHT = 180    # everything else: the largest legitimate operation observed takes < 10 s
CROSS_FILE = ("dry.", "stringly-typed.")
KNOWN_LANG_EXT = (".py", ".js", ".ts", ".tsx", ".jsx", ".rs")


def gen(run_seed: int, tier: str) -> dict:
    t = Tape(seed=run_seed)
    nh = 4 + t.draw(6, "healthy")
    focus = t.chance(1, 6, "focus")
    if focus:
        # focused scenario: one language, dense cross-file evidence, one offender of that language whose single
        # fault leaves the file *inside* a multi-line construct - what a line-based state machine trips over
        flang = t.pick(["python", "python", "typescript", "javascript", "rust"], "focus_lang")
        world = cpool.gen_world(t, nh, langs=[flang], dense=True)
        world.pop("meta", None)
        base = cpool.gen_file(t, flang, "o0", [0], [0])
        kind = t.pick(["open_construct", "open_construct", "truncate_line", "stray_line"], "focus_kind")
        if kind == "open_construct":
            f = {"kind": kind, "p": [t.draw(8, "fault.which"), t.draw(2, "fault.where"), t.draw(1 << 20, "fault.pos")]}
        else:
            f = faults.draw_fault(t, base.encode(), flang, False)
            while f["kind"] != kind:
                f = faults.draw_fault(t, base.encode(), flang, False)
        d = t.pick(cpool.DIRS[:8], "off.dir")
        # a name that sorts before the healthy files of its directory
        rel = (d + "/" if d else "") + f"aaa_offender_0{cpool.LANG_EXT[flang]}"
        cmds = t.sample(CLI_CMDS, 2, "cmds")
        return {"world": world, "offenders": [{"rel": rel, "lang": flang, "base": base, "faults": [f]}], "cmds": cmds,
                "fmt": t.pick(["json", "text", "sarif"], "fmt"), "probe": None, "focus": True,
                "W": 1 + t.draw(4, "W"), "knobs": {"shape": "random", "exec_at": "dispatch"}, "sched_seed": mix(run_seed, "sched")}
    world = cpool.gen_world(t, nh)
    world.pop("meta", None)
    offenders = []
    heavy_used = False
    allow_blowup = t.chance(1, 3, "blowup_run") or bool(os.environ.get("VSIM_C11_FORCE_BLOWUP"))
    # several offenders per scenario: each is an independent experiment on the same (costly) set of operations
    for i in range(2 + t.draw(5, "noff") if not t.chance(1, 4, "one") else 1):
        lang = t.pick(cpool.LANGS + ["python", "unknown"], "off.lang")
        if t.chance(1, 6, "empty_base"):
            base = ""
        else:
            base = cpool.gen_file(t, lang, f"o{i}", [t.draw(3, "dup")] if t.chance(1, 2, "offdup") else [],
                                  [t.draw(3, "str")] if t.chance(1, 2, "offstr") else [])
        ext = cpool.LANG_EXT.get(lang, ".dat")
        d = t.pick(cpool.DIRS, "off.dir")
        rel = (d + "/" if d else "") + f"offender_{i}{ext}"
        fs, data = [], base.encode()
        for _ in range(1 + t.draw(3, "nfaults") if not t.chance(2, 3, "single") else 1):
            f = faults.draw_fault(t, data, lang, allow_blowup, force_blowup=bool(os.environ.get("VSIM_C11_FORCE_BLOWUP")))
            if f["kind"] == "many_funcs":
                # some analyzers of the pinned tree are super-linear in the number of functions (2400 tiny
                # TypeScript functions: 255 s); one bounded dose per scenario keeps runs inside the watchdog
                if heavy_used:
                    continue
                heavy_used = True
            fs.append(f)
            data = faults.apply(f, data, lang)
        offenders.append({"rel": rel, "lang": lang, "base": base, "faults": fs})
    cmds = t.sample(CLI_CMDS, 2 + t.draw(2, "ncmd"), "cmds")
    return {"world": world, "offenders": offenders, "cmds": cmds, "fmt": t.pick(["json", "text", "sarif"], "fmt"),
            "probe": t.pick(["vanish", "dangling", "symdir"], "probe") if t.chance(1, 8, "probe_run") else None,
            "W": 1 + t.draw(4, "W"), "knobs": {"shape": "random", "exec_at": "dispatch"},
            "sched_seed": mix(run_seed, "sched")}


def _env(W: World, sc: dict, tap: str) -> dict:
    return {"stack_dump": True, "cwd": str(W.proj), "home": str(W.home), "tmp": str(W.tmp), "walk": "sorted",
            "tape": {"seed": sc["sched_seed"], "values": sc.get("sched_tape")}, "knobs": dict(sc["knobs"]),
            "tap": str(W.root / tap)}


def _is_foreign(rel: str, data: bytes) -> bool:
    """Cannot legitimately share a code window / string set with a healthy file."""
    if not data.strip():
        return True
    try:
        data.decode("utf-8")
    except UnicodeDecodeError:
        return True  # file_content is None for every rule
    name = rel.rsplit("/", 1)[-1]
    ext = "." + name.rsplit(".", 1)[1].lower() if "." in name else ""
    if ext in KNOWN_LANG_EXT:
        return False
    return not data.startswith(b"#!")


def execute(zy, sc: dict) -> dict:
    W = World(f"c11-{sc.get('index', 0)}")
    try:
        return _execute(zy, sc, W)
    finally:
        W.destroy()


def _fail(kind, rule="none", exc="none", lang="none", fault="none", **detail):
    return {"sig": f"C11 {kind} rule={rule} exc={exc} lang={lang} fault={fault}", "detail": detail}


def _lang_of_path(path: str, offs: dict) -> tuple[str, str]:
    """(language, fault class) of the offender a path belongs to, else ('healthy','none')."""
    for rel, o in offs.items():
        if path.endswith("/" + rel) or path == rel:
            return o["lang_final"], o["fault_class"]
    return "healthy", "none"


def _final_lang(rel: str, data: bytes) -> str:
    name = rel.rsplit("/", 1)[-1]
    ext = "." + name.rsplit(".", 1)[1].lower() if "." in name else ""
    m = {".py": "python", ".js": "javascript", ".jsx": "javascript", ".ts": "typescript", ".tsx": "typescript",
         ".rs": "rust", ".java": "java", ".go": "go"}
    if ext in m:
        return m[ext]
    if data.startswith(b"#!") and b"python" in data.split(b"\n", 1)[0]:
        return "python"
    return "unknown"


def _hang_site(stack: str | None) -> str:
    """Innermost repository frame of a hung process (faulthandler dump, most recent call first)."""
    import re
    for line in (stack or "").splitlines():
        m = re.search(r'File ".*?/src/(.+?\.py)", line \d+ in (\w+)', line)
        if m:
            return f"{m.group(1)}:{m.group(2)}"
    return "unknown-site"


def _abort_failures(recs: list[dict], offs: dict, where: str) -> list[dict]:
    """A ValueError (incl. UnicodeError) leaving a rule is re-raised by the orchestrator and aborts the whole run;
    the recorder saw which rule raised it on which file."""
    out = []
    for r in recs:
        if r.get("site") == "recorder" and r.get("exc_type") in ("ValueError", "UnicodeEncodeError", "UnicodeDecodeError", "UnicodeError"):
            lang, fc = _lang_of_path(r.get("file") or "", offs)
            out.append(_fail("aborted", rule=r.get("rule", "?"), exc=r.get("exc_type"), lang=lang, fault=fc, where=where,
                             file=r.get("file"), msg=r.get("exc_msg")))
    return out


def _tap_failures(recs: list[dict], offs: dict, where: str) -> list[dict]:
    out = []
    for r in recs:
        if r.get("site") == "recorder":
            rule, path = r.get("rule", "?"), r.get("file") or ""
            if r.get("exc_type") in ("ValueError", "StepCapExceeded"):
                continue  # ValueError is re-raised by the orchestrator (exit-status oracle); the step cap is the harness's own
        elif r.get("site") == "rule":
            rule, path = (r["args"] + ["?", "?"])[0], (r["args"] + ["?", "?"])[1]
        elif r.get("site") in ("worker", "future"):
            rule, path = r["site"], (r.get("args") or [""])[0]
        else:
            continue
        lang, fc = _lang_of_path(path, offs)
        out.append(_fail("swallowed", rule=rule, exc=r.get("exc_type"), lang=lang, fault=fc, where=where,
                         file=path, msg=r.get("exc_msg"), site=r.get("site")))
    return out


def _execute(zy, sc: dict, W: World) -> dict:
    W.populate(sc["world"])
    failures, harness = [], None
    stats = {"faults": [], "fault_classes": [], "offender_langs": [], "trivial": True, "steps": 0, "cmds": sc["cmds"],
             "focus": bool(sc.get("focus"))}
    root = str(W.proj)
    # ---- baseline without offenders
    base = zy.call("vsim.ops:api_call", {"env": _env(W, sc, "tap-base.jsonl"), "root": root, "method": "lint_directory",
                                         "dir": root, "steps_cap": STEP_CAP_HEAVY}, timeout=OP_TIMEOUT, exit="_exit")
    if not base["ok"]:
        # the linter fails on the *healthy* project already: a violation in its own right (no offender involved)
        btap = read_tap(str(W.root / "tap-base.jsonl"))
        if base.get("kind") == "timeout":
            fl = [_fail("wall", rule=_hang_site(base.get("stack")), lang="any", fault="any", op="api-baseline")]
        elif base.get("exc_type") == "StepCapExceeded":
            fl = [_fail("steps", lang="healthy", fault="none", cap=STEP_CAP_HEAVY)]
        elif base.get("kind") == "exception":
            fl = _abort_failures(btap, {}, "api-baseline") or [_fail("raised", rule="api-baseline", exc=base.get("exc_type"), lang="healthy",
                                                                     fault="none", msg=base.get("exc"), tb=base.get("tb"))]
        else:
            fl = [_fail("crash", rule="api-baseline", exc=f"status={base.get('status')}", lang="healthy", fault="none")]
        return {"failures": _uniq(fl + _tap_failures(btap, {}, "baseline")), "stats": stats, "H": digest(sc), "C": "", "scenario": sc, "harness": None}
    base_tap = read_tap(str(W.root / "tap-base.jsonl"))
    # ---- plant offenders
    offs = {}
    changed = False
    for o in sc["offenders"]:
        rel, data = faults.build(o)
        if rel in sc["world"]["files"] or rel in offs:
            continue
        W.write(rel, enc(data))
        kinds = [f["kind"] for f in o["faults"]]
        fclass = "blowup" if any(faults.KIND_CLASS.get(k) == "blowup" for k in kinds) else (faults.KIND_CLASS.get(kinds[-1], "none") if kinds else "none")
        offs[rel] = {"lang_final": _final_lang(rel, data), "fault_class": fclass,
                     "kinds": kinds, "foreign": _is_foreign(rel, data), "size": len(data)}
        stats["faults"] += kinds
        stats["fault_classes"].append("+".join(faults.KIND_CLASS[k] for k in kinds))
        stats["offender_langs"].append(offs[rel]["lang_final"])
        if data != o["base"].encode():
            changed = True
    stats["trivial"] = not changed
    stats["seq_sig"] = digest([[o["lang_final"], o["kinds"]] for o in offs.values()])
    all_foreign = all(o["foreign"] for o in offs.values())
    healthy = {W.canon(str(W.proj / r)) for r in sc["world"]["files"]} | {W.canon(str(W.proj / ".thailint.yaml"))}

    off_marks = [W.canon(str(W.proj / rel)) for rel in offs] + [rel.rsplit("/", 1)[-1] for rel in offs]

    def healthy_only(vs):
        """Violations on healthy files that the offenders cannot legitimately influence.

        Per-file rules: all of them. Cross-file rules: all of them when every offender is foreign. With a
        derived offender (it may honestly duplicate healthy code) stringly-typed findings are left out, and DRY
        findings are kept only for healthy files none of whose DRY messages - in either run - mentions an
        offender: a DRY message lists every other location of its block, so such a file shares no block with
        any offender and its findings must not move.
        """
        canon = [json.loads(x) for x in canon_violations(W, vs)]
        out = []
        for v in canon:
            if v[1] not in healthy:
                continue
            if not v[0].startswith(CROSS_FILE) or all_foreign:
                out.append(json.dumps(v))
            elif v[0].startswith("dry.") and v[1] not in dry_touched:
                out.append(json.dumps(v))
        return sorted(out)

    def touched_by_offender(vs):
        t = set()
        for x in canon_violations(W, vs):
            v = json.loads(x)
            if v[0].startswith("dry.") and any(m in (v[4] or "") for m in off_marks):
                t.add(v[1])
        return t

    dry_touched: set = set()

    def first_off():
        for rel, o in offs.items():
            return o["lang_final"], o["fault_class"]
        return "none", "none"

    # ---- 1. API sequential with step counter
    heavy = any(f["kind"] == "many_funcs" for o in sc["offenders"] for f in o["faults"])
    op_timeout = OP_TIMEOUT if heavy else OP_TIMEOUT_LIGHT
    cap = STEP_CAP_HEAVY if heavy else STEP_CAP_BASE + 10 * base["value"]["steps"]
    stats["cap"] = cap
    seq = zy.call("vsim.ops:api_call", {"env": _env(W, sc, "tap-seq.jsonl"), "root": root, "method": "lint_directory",
                                        "dir": root, "steps_cap": cap}, timeout=op_timeout, exit="_exit")
    lang0, fc0 = first_off()
    Cparts = {}
    if not seq["ok"]:
        if seq.get("exc_type") == "StepCapExceeded":
            failures.append(_fail("steps", lang=lang0, fault=fc0, cap=cap))
        elif seq.get("kind") == "timeout":
            failures.append(_fail("wall", rule=_hang_site(seq.get("stack")), lang="any", fault="any", op="api-seq", stack=(seq.get("stack") or "")[:1500]))
        elif seq.get("kind") == "died":
            failures.append(_fail("crash", rule="api-seq", exc=f"status={seq.get('status')}", lang=lang0, fault=fc0))
        else:
            ab = _abort_failures(read_tap(str(W.root / "tap-seq.jsonl")), offs, "api-seq")
            failures += ab or [_fail("raised", rule="api-seq", exc=seq.get("exc_type"), lang=lang0, fault=fc0,
                                     msg=seq.get("exc"), tb=seq.get("tb"))]
    else:
        stats["steps"] = seq["value"]["steps"]
        dry_touched |= touched_by_offender(seq["value"]["violations"])
        a = healthy_only(base["value"]["violations"])
        b = healthy_only(seq["value"]["violations"])
        Cparts["seq"] = canon_violations(W, seq["value"]["violations"])
        oa, ob = multiset_diff(a, b)
        for x in oa[:20]:
            failures.append(_fail("sibling-lost", rule=json.loads(x)[0], lang=lang0, fault=fc0, only_baseline=oa[:5], only_with_offender=ob[:5]))
        for x in ob[:20]:
            failures.append(_fail("sibling-extra", rule=json.loads(x)[0], lang=lang0, fault=fc0, only_baseline=oa[:5], only_with_offender=ob[:5]))
    tap = [r for r in read_tap(str(W.root / "tap-seq.jsonl"))]
    # a failure already present on the healthy baseline is not caused by the offender but is still a swallowed failure
    failures += _tap_failures(tap, offs, "api-seq")
    failures += _tap_failures(base_tap, offs, "baseline")

    # ---- 1b. offenders first: every healthy file is analysed by rule objects that have just seen the damage
    if seq["ok"] and not any(f["sig"].startswith(("C11 steps", "C11 wall")) for f in failures):
        hfiles = [str(W.proj / r) for r in sorted(sc["world"]["files"])]
        ofiles = [str(W.proj / r) for r in offs]
        b0 = zy.call("vsim.ops:api_call", {"env": _env(W, sc, "tap-b0.jsonl"), "root": root, "method": "lint_files", "paths": hfiles},
                     timeout=op_timeout, exit="_exit")
        # start the healthy list at files of the offenders' own languages: those are analysed by the very
        # analyzer objects the damage went through
        olangs = {o["lang_final"] for o in offs.values()}
        starts = [i for i, r in enumerate(sorted(sc["world"]["files"])) if _final_lang(r, b"") in olangs][:3] or [0]
        if 0 not in starts:
            starts = [0] + starts[:2]
        for rot in starts:
            order = ofiles + hfiles[rot:] + hfiles[:rot]
            of = zy.call("vsim.ops:api_call", {"env": _env(W, sc, "tap-of.jsonl"), "root": root, "method": "lint_files", "paths": order},
                         timeout=op_timeout, exit="_exit")
            if b0["ok"] and of["ok"]:
                dry_touched |= touched_by_offender(of["value"]["violations"])
                a = healthy_only(b0["value"]["violations"])
                b = healthy_only(of["value"]["violations"])
                oa, ob = multiset_diff(a, b)
                for x in oa[:20]:
                    failures.append(_fail("sibling-lost", rule=json.loads(x)[0], lang=lang0, fault=fc0, where="offenders-first", only_baseline=oa[:5], only_with_offender=ob[:5]))
                for x in ob[:20]:
                    failures.append(_fail("sibling-extra", rule=json.loads(x)[0], lang=lang0, fault=fc0, where="offenders-first", only_baseline=oa[:5], only_with_offender=ob[:5]))
            elif not of["ok"] and of.get("kind") == "timeout":
                failures.append(_fail("wall", rule=_hang_site(of.get("stack")), lang="any", fault="any", op="api-files"))
    hung = any(f["sig"].startswith(("C11 steps", "C11 wall")) for f in failures)
    if hung:   # non-termination is established; the remaining operations would only wait for their watchdogs
        stats["offenders"] = len(offs)
        stats["all_foreign"] = all_foreign
        H = digest({k: v for k, v in sc.items() if k not in ("hashseed", "index", "verif_seed", "sched_tape")})
        return {"failures": _uniq(failures), "stats": stats, "H": H, "C": digest(Cparts), "scenario": sc, "harness": harness}
    # ---- 2. SimPool (real forked workers)
    par = zy.call("vsim.ops:api_call", {"env": _env(W, sc, "tap-par.jsonl"), "root": root, "method": "lint_directory_parallel",
                                        "dir": root, "workers": sc["W"]}, timeout=op_timeout, exit="_exit")
    if not par["ok"]:
        kind = {"timeout": "wall", "died": "crash"}.get(par.get("kind"), "raised")
        ab = _abort_failures(read_tap(str(W.root / "tap-par.jsonl")), offs, "api-par") if kind == "raised" else []
        if kind == "wall":
            failures.append(_fail("wall", rule=_hang_site(par.get("stack")), lang="any", fault="any", op="api-par"))
        else:
            failures += ab or [_fail(kind, rule="api-par", exc=par.get("exc_type") or "none", lang=lang0, fault=fc0, msg=par.get("exc"))]
    else:
        sc = dict(sc, sched_tape=par["value"]["trace"])
        if par["value"]["counters"].get("worker_died"):
            failures.append(_fail("crash", rule="worker", exc="worker-died", lang=lang0, fault=fc0))
        if seq["ok"]:
            dry_touched |= touched_by_offender(par["value"]["violations"])
            a = healthy_only(base["value"]["violations"])
            b = healthy_only(par["value"]["violations"])
            oa, ob = multiset_diff(a, b)
            for x in (oa + ob)[:20]:
                failures.append(_fail("sibling-par", rule=json.loads(x)[0], lang=lang0, fault=fc0, only_baseline=oa[:5], only_with_offender=ob[:5]))
    failures += _tap_failures(read_tap(str(W.root / "tap-par.jsonl")), offs, "api-par")

    # ---- 3. CLI commands
    exits = []
    for i, cmd in enumerate(sc["cmds"]):
        argv = [cmd, "--format", sc["fmt"], "."]
        if i % 2:
            argv.insert(1, "--parallel")
        r = zy.call("vsim.ops:cli_call", {"env": _env(W, sc, f"tap-cli{i}.jsonl"), "argv": argv}, timeout=op_timeout, exit="_exit")
        if not r["ok"]:
            kind = {"timeout": "wall", "died": "crash"}.get(r.get("kind"), "raised")
            rule = _hang_site(r.get("stack")) if kind == "wall" else cmd
            failures.append(_fail(kind, rule=rule, exc=r.get("exc_type") or "none", lang="any" if kind == "wall" else lang0,
                                  fault="any" if kind == "wall" else fc0, msg=r.get("exc"), op=f"cli:{cmd}"))
            continue
        ex = r["value"]["exit"]
        exits.append(ex)
        if ex not in (0, 1):
            ab = _abort_failures(read_tap(str(W.root / f"tap-cli{i}.jsonl")), offs, f"cli:{cmd}")
            failures += ab or [_fail(f"exit={ex}", rule=cmd, exc=(r["value"].get("exc") or "none").split(":")[0], lang=lang0, fault=fc0,
                                     stderr=r["value"]["stderr"][-600:], stdout=r["value"]["stdout"][-300:], argv=argv)]
        elif r["value"].get("exc"):
            failures.append(_fail("cli-exception", rule=cmd, exc=r["value"]["exc"].split(":")[0], lang=lang0, fault=fc0, msg=r["value"]["exc"]))
        failures += _tap_failures(read_tap(str(W.root / f"tap-cli{i}.jsonl")), offs, f"cli:{cmd}")
    Cparts["exits"] = exits
    # ---- probe only (the statement speaks of file *content*): read-path faults, counted, never a VIOLATION
    if sc.get("probe") and sc["world"]["files"]:
        stats["probe"] = _read_probe(zy, W, sc, root)
    uniq = _uniq(failures)
    stats["offenders"] = len(offs)
    stats["all_foreign"] = all_foreign
    H = digest({k: v for k, v in sc.items() if k not in ("hashseed", "index", "verif_seed", "sched_tape")})
    return {"failures": uniq, "stats": stats, "H": H, "C": digest(Cparts), "scenario": sc, "harness": harness}


def _uniq(failures):
    seen, uniq = set(), []
    for f in failures:
        if f["sig"] not in seen:
            seen.add(f["sig"])
            uniq.append(f)
    return uniq


def _read_probe(zy, W: World, sc: dict, root: str) -> dict:
    kind = sc["probe"]
    env = _env(W, sc, "tap-probe.jsonl")
    if kind == "vanish":
        victim = sorted(sc["world"]["files"])[0].rsplit("/", 1)[-1]
        env["knobs"] = dict(env["knobs"], vanish=victim)
        env["walk"] = "tape"
    elif kind == "dangling":
        os.symlink("/nonexistent/target.py", W.proj / "dangling_link.py")
    elif kind == "symdir":
        os.symlink(str(W.proj), W.proj / "loop_link")
    r = zy.call("vsim.ops:api_call", {"env": env, "root": root, "method": "lint_directory", "dir": root}, timeout=OP_TIMEOUT, exit="_exit")
    out = {"kind": kind, "raised": None if r["ok"] else (r.get("exc_type") or r.get("kind")),
           "fired": (r["value"]["counters"].get("fault.vanished", 0) if r["ok"] and kind == "vanish" else 1),
           "swallowed_records": len(read_tap(str(W.root / "tap-probe.jsonl")))}
    return out


def shrink(sc: dict):
    # fewer offenders
    if len(sc["offenders"]) > 1:
        for i in range(len(sc["offenders"])):
            c = copy.deepcopy(sc)
            del c["offenders"][i]
            yield c
    # fewer faults per offender
    for i, o in enumerate(sc["offenders"]):
        if len(o["faults"]) > 1:
            for j in range(len(o["faults"])):
                c = copy.deepcopy(sc)
                del c["offenders"][i]["faults"][j]
                yield c
    # fewer healthy files
    files = sorted(sc["world"]["files"])
    n = len(files)
    size = max(1, n // 2)
    while size >= 1 and n > 0:
        for k in range(0, n, size):
            c = copy.deepcopy(sc)
            for r in files[k:k + size]:
                c["world"]["files"].pop(r, None)
            yield c
        if size == 1:
            break
        size //= 2
    # fewer commands
    if len(sc["cmds"]) > 1:
        for i in range(len(sc["cmds"])):
            c = copy.deepcopy(sc)
            del c["cmds"][i]
            yield c
    # smaller base
    for i, o in enumerate(sc["offenders"]):
        if o["base"]:
            c = copy.deepcopy(sc)
            lines = o["base"].split("\n")
            c["offenders"][i]["base"] = "\n".join(lines[:len(lines) // 2])
            yield c
    # smaller blow-up parameter
    for i, o in enumerate(sc["offenders"]):
        for j, f in enumerate(o["faults"]):
            if faults.KIND_CLASS.get(f["kind"]) == "blowup" and f["p"][0] > 10:
                c = copy.deepcopy(sc)
                c["offenders"][i]["faults"][j]["p"][0] = f["p"][0] // 2
                yield c


def _probe_summary(runs):
    from collections import Counter
    ps = [r["stats"]["probe"] for r in runs if r["stats"].get("probe")]
    return {"read_path_faults_injected": len(ps), "fired": sum(1 for p in ps if p["fired"]),
            "by_kind": dict(Counter(p["kind"] for p in ps)),
            "api_call_raised": dict(Counter(str(p["raised"]) for p in ps if p["raised"])),
            "swallowed_records_total": sum(p["swallowed_records"] for p in ps),
            "note": "file vanishing between directory listing and read, dangling symlink, symlinked directory: outside the statement "
                    "(it speaks of file content), counted, never a VIOLATION"}


def evidence(outputs: list[dict], tier: str, seed: int) -> dict:
    from collections import Counter
    runs = [r for o in outputs for r in o["runs"]]
    nontrivial = [r for r in runs if not r["stats"].get("trivial")]
    kinds = Counter(k for r in runs for k in r["stats"]["faults"])
    classes = Counter(c for r in runs for c in r["stats"]["fault_classes"])
    langs = Counter(l for r in runs for l in r["stats"]["offender_langs"])
    cmds = Counter(c for r in runs for c in r["stats"]["cmds"])
    distinct = {r["stats"]["seq_sig"] for r in nontrivial}
    steps = [r["stats"]["steps"] for r in runs if r["stats"].get("steps")]
    samples = [{"index": r["index"], "fault_sequences": r["stats"]["fault_classes"], "faults": r["stats"]["faults"],
                "offender_languages": r["stats"]["offender_langs"], "commands": r["stats"]["cmds"],
                "line_events": r["stats"]["steps"]} for r in nontrivial[:4]]
    return {"coverage": {
        "evaluations": len(runs), "distinct_nontrivial": len(distinct),
        "rule": "one evaluation = one healthy project + 1-6 offenders, each built by a fault sequence, linted at API level "
                "(directory run with line-event cap, lint_files with the offenders first, SimPool workers) and by 2-3 CLI commands; non-trivial = "
                "the faults changed the offender's bytes; distinct = distinct (final language, fault-kind sequence) tuples",
        "samples": samples or [{"note": "no non-trivial run"}],
        "fault_kinds_fired": dict(kinds), "fault_class_sequences": dict(classes.most_common(40)),
        "offender_languages": dict(langs), "cli_commands_run": dict(cmds),
        "focused_torn_construct_scenarios": sum(1 for r in runs if r["stats"].get("focus")),
        "offenders_total": sum(r["stats"].get("offenders", 0) for r in runs),
        "line_events_max": max(steps) if steps else 0,
        "line_events_cap": f"{STEP_CAP_BASE} + 10 x baseline line events (inputs without many_funcs), {STEP_CAP_HEAVY} otherwise",
        "exposure_probes": _probe_summary(runs),
        "simulated_events": sum(steps),
        "simulated_time": "not applicable: no clock in the code under test; bounded termination is measured in line events",
        "real_vs_stub": {"real": "src/ (language detection, read_text, 20 rules, catch-alls, CLI exit path), tree-sitter, ast, "
                                 "sqlite3, forked pool workers", "stub": "pool scheduling (SimPool), walk order (sorted)"},
    }, "assumptions": ["hangs inside C extensions are decided by a wall clock (300 s per operation) and must reproduce on replay",
                       "sibling isolation for the two cross-file rules is only demanded when every offender is foreign "
                       "(empty, undecodable, or an unknown language)"]}
