"""C20 — config tooling never loses user settings and only writes validated values (DESIGN 4, C20).

System: a durable file (.thailint.yaml, config.yaml, cfg/app.yaml, cfg/app.json) and a succession
of short-lived processes (init-config, config set/get/show/reset, linter commands) that read,
validate and rewrite it in place, interleaved with user edits that keep it valid YAML. Every
command runs the real click CLI in a process forked from the pristine zygote with cwd/HOME inside
the world. A reference model (plain dicts of what the user asked for) is checked after each step.
"""
from __future__ import annotations

import copy
import json
import os
import re
import subprocess
import sys

import yaml

from vsim.engine import digest
from vsim.props.c07 import CLI_CMDS
from vsim.tape import Tape, mix
from vsim.world import World

ID = "C20"
RUNS = {"quick": 1120, "thorough": 24000}
WALL = {"quick": 3600, "thorough": 8 * 3600}
MIN_BUDGET = 120
MIN_PER_SIG = 60

SECTIONS = ["magic-numbers", "nesting", "srp", "dry", "file-placement", "print-statements", "stringly-typed",
            "file-header", "method-property", "stateless-class", "pipeline", "lazy-ignores"]
SECTION_BODY = {
    "magic-numbers": [("allowed_numbers", "[42, 7]"), ("max_small_integer", "4"), ("enabled", "true")],
    "nesting": [("max_nesting_depth", "2"), ("enabled", "true")],
    "srp": [("max_methods", "3"), ("max_loc", "50"), ("enabled", "true")],
    "dry": [("enabled", "true"), ("min_duplicate_lines", "3"), ("min_duplicate_tokens", "20")],
    "file-placement": [("global_deny", "[{pattern: '.*\\.tmp$', reason: no tmp}]")],
    "print-statements": [("enabled", "false")],
    "stringly-typed": [("enabled", "true"), ("min_occurrences", "3")],
    "file-header": [("enabled", "false")],
    "method-property": [("enabled", "true"), ("max_body_statements", "2")],
    "stateless-class": [("enabled", "true"), ("min_methods", "3")],
    "pipeline": [("enabled", "true"), ("min_continues", "2")],
    "lazy-ignores": [("enabled", "false")],
}
BANNER = ("# ============================================================================\n"
          "# GLOBAL SETTINGS\n"
          "# ============================================================================\n")
APP_FILES = [None, None, "cfg/app.yaml", "cfg/app.json", ".thailint.yaml", "config.yaml", "config.json", "cfg/app.yml", "cfg/APP.YAML", "cfg/App.Json"]

VALID = {
    "log_level": ["DEBUG", "INFO", "WARNING", "ERROR", "CRITICAL"],
    "output_format": ["text", "json", "yaml"],
    "max_retries": ["0", "3", "10", "007", "1_000", "+4"],
    "timeout": ["30", "0.5", "1e3", "7", "30.0", "7.0"],
    "app_name": ["myapp", "my app", "ลินท์"],
}
INVALID = {
    "log_level": ["debug", "TRACE", "", "5", "Info "],
    "output_format": ["xml", "TEXT", "", "sarif"],
    "max_retries": ["-1", "2.5", "many", ""],
    "timeout": ["0", "-3", "0.0", "-0.5", "soon", ""],
    "app_name": ["", " ", "   "],
}
FREE_KEYS = ["greeting", "my_key", "my-key", "nested.key", "K", "team name"]
FREE_VALUES = ["Hi", "true", "FALSE", "007", "1e3", "-5", "", "null", "~", "yes", "1:30", "0x1F", "a: b", "[1,2]",
               "{x}", "#c", "ünï", "'q'", '"dq"', "  padded  ", "inf", "1_000", ".5", "a\\nb", "5 # five", "- item",
               "first\x85second", "trail\x85", "\u2028sep", "tab\there", "a\u00a0b", "\ufeffbom", "😀 non-BMP", "1e-7", "1e22", "\x7fdel"]


def typed(value: str):
    """The documented conversion of `config set` values (bool, int, float, else string)."""
    if value.lower() in ("true", "false"):
        return value.lower() == "true"
    for conv in (int, float):
        try:
            return conv(value)
        except ValueError:
            pass
    return value


# ----------------------------------------------------------------------------- generation

def gen_user_yaml(t) -> str:
    parts: list[str] = []
    if t.chance(1, 4, "docstart"):
        parts.append("---\n")
    if t.chance(1, 2, "hdr"):
        parts.append("# team config - edited by hand\n# keep in sync with CI\n\n")
    secs = [s for s in SECTIONS if t.chance(1, 2, "has_" + s)]
    secs = t.shuffle(secs, "sec_order")
    banner_at = None
    bmode = t.draw(10, "banner")
    if bmode < 4:
        banner_at = len(secs)           # where the template has it: after the linter sections
    elif bmode < 6 and secs:
        banner_at = t.draw(len(secs), "banner_pos")   # moved between sections
    style = t.draw(8, "banner_style")
    if style < 4:
        banner = BANNER
    elif style == 4:
        banner = "# GLOBAL SETTINGS\n"                       # hand-trimmed: title only, no rule lines
    elif style == 5:
        banner = "# ==========\n# GLOBAL SETTINGS\n# ==========\n"   # rule lines of another width
    elif style == 6:
        banner = "#\n# GLOBAL SETTINGS\n#\n"
    else:
        banner = BANNER.replace("GLOBAL SETTINGS", "GLOBAL SETTINGS (team overrides below)")
    tight = t.chance(1, 2, "banner_tight")    # banner directly after a content line, no blank line
    for i, s in enumerate(secs):
        if banner_at == i:
            if tight and parts and parts[-1] == "\n":
                parts.pop()
            parts.append(banner + ("" if tight else "\n"))
        name = s.replace("-", "_") if ("-" in s and t.chance(1, 2, "spell")) else s
        if t.chance(1, 6, "quote_key"):
            name = f'"{name}"'
        body = [kv for kv in SECTION_BODY[s] if t.chance(2, 3, "kv")] or SECTION_BODY[s][:1]
        if t.chance(1, 4, "flow"):
            parts.append(f"{name}: {{" + ", ".join(f"{k}: {v}" for k, v in body) + "}\n")
        else:
            parts.append(f"{name}:" + ("  # tuned 2024" if t.chance(1, 4, "tc") else "") + "\n")
            for k, v in body:
                if t.chance(1, 5, "mid_comment"):
                    parts.append("  # reviewed by the team\n")
                parts.append(f"  {k}: {v}" + ("  # why" if t.chance(1, 6, "kc") else "") + "\n")
        if t.chance(1, 2, "gap"):
            parts.append("\n")
    if banner_at == len(secs):
        if tight and parts and parts[-1] == "\n":
            parts.pop()
        parts.append(banner)
    if t.chance(1, 2, "ignore"):
        parts.append("ignore:\n  - \"gen/\"\n  - \"*.min.js\"\n")
    if t.chance(1, 3, "extra"):
        parts.append("my_team:\n  owner: platform\n  level: 3\n")
    if t.chance(1, 4, "outfmt"):
        parts.append("output_format: text\n")
    if t.chance(1, 6, "scalar_tail"):
        parts.append("notes: |" + t.pick(["", "", "+", "-"], "chomp") + "\n  first line\n  second line\n" + ("\n\n" if t.chance(1, 3, "scalar_blank") else ""))
    if t.chance(1, 10, "marker_in_scalar"):
        parts.append("banner_text: |\n  # ============================================================================\n  # GLOBAL SETTINGS\n  keep this\n")
    if t.chance(1, 8, "null_section"):
        missing = [x for x in SECTIONS if x not in secs]
        if missing:
            parts.append(t.pick(missing, "null_sec") + t.pick([":\n", ": ~\n", ": null\n", ": {}\n"], "null_style"))
    if t.chance(1, 8, "commented_section"):
        parts.append("# " + t.pick(SECTIONS, "com_sec") + ":\n#   enabled: false\n")
    if t.chance(1, 10, "anchor"):
        parts.append("shared_defaults: &shared\n  enabled: true\n  min_methods: 4\nteam_copy: *shared\n")
    if t.chance(1, 12, "tab_comment"):
        parts.append("\t# tab-indented note\n")
    if t.chance(1, 10, "trailing_comment_block"):
        parts.append("# --- end of settings ---\n# last reviewed: never\n")
    text = "".join(parts)
    if not text.strip() or not secs and not t.chance(1, 2, "empty_ok"):
        text += "rules: {}\n"
    if t.chance(1, 12, "doc_end"):
        text = text.rstrip("\n") + "\n...\n"
    if t.chance(1, 16, "bom"):
        text = "\ufeff" + text
    end = t.draw(12, "ending")
    if end == 0:
        text = text.rstrip("\n")
    elif end == 1:
        text += "\n\n\n"
    elif end == 2:
        text = text.replace("\n", "\r\n")
    elif end == 3 and not text.lstrip().startswith("---"):
        pass
    return text


def gen(run_seed: int, tier: str) -> dict:
    t = Tape(seed=run_seed)
    initial = {}
    mode = t.draw(10, "initial")
    if mode < 6:
        initial[".thailint.yaml"] = gen_user_yaml(t)
    elif mode < 8:
        initial[".thailint.yaml"] = {"generate": t.pick(["strict", "standard", "lenient"], "preset")}
    if t.chance(1, 3, "appyaml"):
        initial["config.yaml"] = "greeting: Hola\nlog_level: WARNING\n" + t.pick(
            ["", "team:\n  owner: platform\n  size: 4\n", "empty_key:\nratio: 1000.0\nbig: 12345678901234567890\n", "flag: yes\nlabel: '007'\n"], "appyaml_extra")
    if t.chance(1, 4, "appjson"):
        initial["cfg/app.json"] = json.dumps({"greeting": "Hej", "max_retries": 2, "nested": {"a": [1, 2], "b": None}}, indent=2)
    if t.chance(1, 6, "cwdjson"):
        initial["config.json"] = json.dumps({"greeting": "Ciao", "timeout": 12.5, "label": "007"}, indent=2)
    events = []
    n = 5 + t.draw(12, "nev")
    for _ in range(n):
        k = t.draw(100, "ev")
        if k < 22:
            events.append({"ev": "init", "preset": t.pick(["strict", "standard", "lenient", None], "preset"),
                           "force": t.chance(1, 6, "force"),
                           "output": t.pick([None, None, None, "alt/lint.yaml"], "output"),
                           "lint_cmds": t.sample(CLI_CMDS, 3 if tier == "quick" else 6, "lint_cmds")})
        elif k < 55:
            f = t.pick(APP_FILES, "file")
            r = t.draw(10, "setkind")
            if r < 3:
                key = t.pick(sorted(VALID), "key")
                val = t.pick(VALID[key], "val")
            elif r < 6:
                key = t.pick(sorted(INVALID), "key")
                val = t.pick(INVALID[key], "val")
            else:
                key = t.pick(FREE_KEYS, "key")
                val = t.pick(FREE_VALUES, "val")
            events.append({"ev": "set", "file": f, "key": key, "value": val})
            if t.chance(1, 4, "retype"):
                # set the same key again to an equal value of another type (30 -> 30.0, 1 -> true, 2.0 -> 2)
                tv = typed(val)
                alt = None
                if isinstance(tv, bool):
                    alt = "1" if tv else "0"
                elif isinstance(tv, int):
                    alt = t.pick([f"{tv}.0", "true" if tv == 1 else f"{tv}.0", f"{tv}e0"], "retype_int")
                elif isinstance(tv, float) and tv == tv and abs(tv) < 1e15 and tv == int(tv):
                    alt = str(int(tv))
                if alt is not None:
                    events.append({"ev": "set", "file": f, "key": key, "value": alt})
        elif k < 65:
            events.append({"ev": "get", "file": t.pick(APP_FILES, "file"), "key": t.pick(sorted(VALID) + FREE_KEYS, "key")})
        elif k < 70:
            events.append({"ev": "show", "file": t.pick(APP_FILES, "file"), "fmt": t.pick(["text", "json", "yaml"], "fmt")})
        elif k < 74:
            events.append({"ev": "reset", "file": t.pick(APP_FILES, "file")})
        elif k < 90:
            events.append({"ev": "edit", "file": t.pick([".thailint.yaml", ".thailint.yaml", "config.yaml", "alt/lint.yaml"], "file"),
                           "kind": t.pick(["append_comment", "add_key", "respell", "add_section", "drop_section", "strip_eol",
                                           "add_banner", "add_section_us"], "kind"),
                           "p": t.draw(1 << 16, "p")})
        else:
            events.append({"ev": "lint", "cmd": t.pick(CLI_CMDS, "cmd"), "config": t.pick([None, ".thailint.yaml", "alt/lint.yaml"], "cfg")})
    probe = False
    if t.chance(1, 8, "wf_run"):
        cands = [e for e in events if e["ev"] in ("set", "reset", "init")]
        if cands:
            e = t.pick(cands, "wf_ev")
            e["write_fault"] = {"kind": t.pick(["enospc", "eio", "kill"], "wf_kind"), "after": t.pick([0, 1, 17, 200, 3000], "wf_after")}
            probe = True
    return {"initial": initial, "events": events, "real_cli": (not probe) and t.chance(1, 16, "real"),
            "project": {"src/app.py": "import os\n\n\ndef area(r):\n    if r > 3:\n        for i in range(r):\n            if i % 2:\n                while r < 42:\n                    r += 7\n    return r * 37\n",
                        "src/util.ts": "export function f(x: number): number {\n  return x * 99;\n}\n",
                        "src/lib.rs": "pub fn g(s: &str) -> usize {\n    s.parse::<usize>().unwrap()\n}\n"}}


# ----------------------------------------------------------------------------- helpers

def _fail(kind, cmd, detail_tag, **detail):
    return {"sig": f"C20 {kind} cmd={cmd} detail={detail_tag}", "detail": detail}


def _read(p):
    try:
        with open(p, "rb") as f:
            return f.read()
    except FileNotFoundError:
        return None


def _parse_yaml_bytes(b: bytes | None):
    if b is None:
        return None, "absent"
    try:
        return yaml.safe_load(b.decode("utf-8")), None
    except Exception as e:  # yaml.YAMLError, UnicodeDecodeError
        return None, f"{type(e).__name__}: {str(e)[:200]}"


def _norm(k) -> str:
    return str(k).replace("-", "_")


def _canon(x) -> str:
    return json.dumps(x, sort_keys=True, default=repr)


def apply_edit(text: str, kind: str, p: int) -> str | None:
    """A user edit that leaves valid YAML (verified by the caller). None = not applicable."""
    lines = text.split("\n")
    if kind == "append_comment":
        return text + ("" if text.endswith("\n") or not text else "\n") + f"# note {p}\n"
    if kind == "add_key":
        return text + ("" if text.endswith("\n") or not text else "\n") + f"custom_{p % 7}: {p}\n"
    if kind == "strip_eol":
        return text.rstrip("\n")
    if kind == "add_banner":
        if "GLOBAL SETTINGS" in text:
            return None
        return text + ("" if text.endswith("\n") or not text else "\n") + BANNER + f"exclude_{p % 5}: []\n"
    if kind in ("add_section", "add_section_us"):
        s = SECTIONS[p % len(SECTIONS)]
        name = s.replace("-", "_") if kind == "add_section_us" else s
        try:
            doc = yaml.safe_load(text) or {}
        except Exception:
            return None
        if not isinstance(doc, dict) or any(_norm(k) == _norm(s) for k in doc):
            return None
        k, v = SECTION_BODY[s][p % len(SECTION_BODY[s])]
        block = f"{name}:\n  {k}: {v}\n"
        pos = text.find(BANNER)
        if pos > 0 and p % 2:
            return text[:pos] + block + "\n" + text[pos:]
        return text + ("" if text.endswith("\n") or not text else "\n") + block
    if kind == "respell":
        idx = [i for i, l in enumerate(lines) if re.match(r"^[a-z]+[-_][a-z-_]+:", l)]
        if not idx:
            return None
        i = idx[p % len(idx)]
        key, rest = lines[i].split(":", 1)
        lines[i] = (key.replace("-", "_") if "-" in key else key.replace("_", "-")) + ":" + rest
        return "\n".join(lines)
    if kind == "drop_section":
        idx = [i for i, l in enumerate(lines) if re.match(r"^[a-z][a-z_-]*:\s*$", l)]
        if not idx:
            return None
        i = idx[p % len(idx)]
        j = i + 1
        while j < len(lines) and (lines[j].startswith(" ") or lines[j].startswith("\t")):
            j += 1
        return "\n".join(lines[:i] + lines[j:])
    return None


# ----------------------------------------------------------------------------- execution

def execute(zy, sc: dict) -> dict:
    W = World(f"c20-{sc.get('index', 0)}")
    try:
        res = _execute(zy, sc, W, real=False)
        if sc.get("real_cli") and not res["failures"]:
            W2 = World(f"c20r-{sc.get('index', 0)}")
            try:
                res2 = _execute(zy, sc, W2, real=True)
                res["stats"]["real_cli_histories"] = 1
                if res2["file_digests"] != res["file_digests"]:
                    first = next((i for i, (a, b) in enumerate(zip(res["file_digests"], res2["file_digests"])) if a != b), None)
                    res["failures"].append(_fail("real-cli-differs", "history", f"step={first}", forked=res["file_digests"][first] if first is not None else None,
                                                 real=res2["file_digests"][first] if first is not None else None))
            finally:
                W2.destroy()
        res.pop("file_digests", None)
        return res
    finally:
        W.destroy()


class _Runner:
    def __init__(self, zy, W: World, sc: dict, real: bool):
        self.zy, self.W, self.sc, self.real = zy, W, sc, real
        self.n = 0

    def env(self, cwd=None):
        self.n += 1
        return {"cwd": cwd or str(self.W.proj), "home": str(self.W.home), "tmp": str(self.W.tmp), "walk": "sorted",
                "tape": {"seed": 0}, "tap": None}

    def cli(self, argv: list[str], write_fault: dict | None = None, cwd: str | None = None) -> dict:
        if write_fault:
            wf = dict(write_fault, prefix=str(self.W.proj))
            r = self.zy.call("vsim.ops:cli_call", {"env": self.env(), "argv": argv, "write_fault": wf}, timeout=300, exit="_exit")
            if not r["ok"]:
                return {"exit": None, "stdout": "", "stderr": r.get("exc") or "", "exc": r.get("exc_type") or r.get("kind"), "counters": {}}
            return r["value"]
        if self.real:
            env = dict(os.environ, HOME=str(self.W.home), TMPDIR=str(self.W.tmp), PYTHONHASHSEED=str(self.sc.get("hashseed", 0)))
            r = subprocess.run([sys.executable, "-m", "src.cli"] + argv, cwd=cwd or str(self.W.proj), env=env, capture_output=True, text=True, timeout=300)
            return {"exit": r.returncode, "stdout": r.stdout, "stderr": r.stderr, "exc": None}
        r = self.zy.call("vsim.ops:cli_call", {"env": self.env(cwd), "argv": argv}, timeout=300, exit="_exit")
        if not r["ok"]:
            return {"exit": None, "stdout": "", "stderr": r.get("exc") or "", "exc": r.get("exc_type") or r.get("kind")}
        return r["value"]

    def effective(self, rel: str) -> dict:
        r = self.zy.call("vsim.props.c20:op_effective", {"env": self.env(), "path": str(self.W.proj / rel)}, timeout=120, exit="_exit")
        return r["value"] if r["ok"] else {"error": f"{r.get('exc_type')}: {r.get('exc')}"}

    def roundtrip(self, rel: str | None) -> dict:
        r = self.zy.call("vsim.props.c20:op_roundtrip", {"env": self.env(), "path": str(self.W.proj / rel) if rel else None,
                                                         "scratch": str(self.W.root / "rt")}, timeout=120, exit="_exit")
        return r["value"] if r["ok"] else {"error": f"{r.get('exc_type')}: {r.get('exc')}"}


def op_effective(arg: dict) -> dict:
    """Fresh process: the configuration as the linters' loader delivers it."""
    from pathlib import Path

    from vsim import ops
    ops.enter(arg["env"])
    from src.linter_config.loader import LinterConfigLoader
    cfg = LinterConfigLoader().load(Path(arg["path"]))
    return {"config": json.loads(_canon(cfg))}


def op_roundtrip(arg: dict) -> dict:
    """Fresh process: load the app config, save as YAML and as JSON, load both back."""
    from pathlib import Path

    from vsim import ops
    ops.enter(arg["env"])
    from src.config import load_config, save_config
    cfg = load_config(Path(arg["path"])) if arg["path"] else load_config()
    os.makedirs(arg["scratch"], exist_ok=True)
    out = {"orig": _canon(cfg)}
    for ext in ("yaml", "json"):
        p = Path(arg["scratch"]) / f"rt.{ext}"
        save_config(dict(cfg), p)
        out[ext] = _canon(load_config(p))
    return out


def _app_path(W: World, f: str | None) -> str:
    return str(W.proj / (f or "config.yaml"))


def _execute(zy, sc: dict, W: World, real: bool) -> dict:
    R = _Runner(zy, W, sc, real)
    failures: list[dict] = []
    stats = {"cmds": [], "pairs": [], "writes": 0, "edits_applied": 0, "edits_skipped": 0, "set_accepted": 0, "set_rejected": 0,
             "merges": 0, "merge_added": 0, "lint_runs": 0, "trivial": True, "states": []}
    for rel, content in sorted(sc["project"].items()):
        W.write(rel, content)
    for rel, content in sorted(sc["initial"].items()):
        if isinstance(content, dict):
            r = R.cli(["init-config", "--non-interactive", "--preset", content["generate"], "--output", rel])
        else:
            W.write(rel, {"b64": __import__("base64").b64encode(content.encode("utf-8")).decode()})
    model: dict[str, dict] = {}     # app-config file -> {key: typed value} the user has set and not since reset
    for rel in ("config.yaml", "cfg/app.json", "config.json"):
        # what the user wrote into an app config by hand counts as set: an unrelated `config set` must keep it
        content = sc["initial"].get(rel)
        if isinstance(content, str):
            try:
                doc = json.loads(content) if rel.endswith(".json") else yaml.safe_load(content)
            except Exception:
                doc = None
            if isinstance(doc, dict):
                model[rel] = {_norm(k): v for k, v in doc.items() if isinstance(k, str)}
    last_writer: dict[str, str] = {}
    file_digests = []
    tracked = [".thailint.yaml", "config.yaml", "config.json", "cfg/app.yaml", "cfg/app.json", "alt/lint.yaml", "cfg/app.yml", "cfg/APP.YAML", "cfg/App.Json"]

    def note_write(rel, who):
        prev = last_writer.get(rel, "user" if rel in sc["initial"] else "none")
        stats["pairs"].append(f"{prev}->{who}")
        last_writer[rel] = who
        stats["writes"] += 1

    def target_of(ev):
        if ev["ev"] == "init":
            return ev["output"] or ".thailint.yaml"
        if ev["ev"] in ("set", "reset"):
            return ev["file"] or "config.yaml"
        return None

    for i, ev in enumerate(sc["events"]):
        kind = ev["ev"]
        stats["cmds"].append(kind)
        others_before = {rel: _read(W.proj / rel) for rel in tracked if rel != target_of(ev)} if kind != "edit" else None
        _step(R, W, sc, ev, i, kind, failures, stats, note_write, model)
        if others_before is not None and not ev.get("write_fault"):
            for rel, b in others_before.items():
                if _read(W.proj / rel) != b:
                    failures.append(_fail("wrong-file-written", {"init": "init-config", "set": "config-set", "reset": "config-reset"}.get(kind, kind),
                                          f"file={rel}", target=target_of(ev), existed=b is not None, step=i))
        file_digests.append([digest(_read(W.proj / rel)) for rel in tracked])
        stats["states"].append(digest([_read(W.proj / rel) is not None and digest(_read(W.proj / rel)) for rel in tracked]))
    return _wrap_up(sc, stats, failures, file_digests)


def _step(R, W, sc, ev, i, kind, failures, stats, note_write, model):
    if True:
        if ev.get("write_fault"):
            _do_faulty(R, W, ev, stats, model)
        elif kind == "init":
            _do_init(R, W, ev, failures, stats, note_write, i, model)
        elif kind == "set":
            _do_set(R, W, ev, failures, stats, note_write, model, i)
        elif kind == "get":
            rel = ev["file"]
            key = ev["key"]
            argv = (["--config", rel] if rel else []) + ["config", "get", key]
            r = R.cli(argv)
            mk = model.get(rel or "config.yaml", {})
            if rel is None and _read(str(W.proj / "config.yaml")) is None:
                mk = model.get("config.json", {}) if _read(str(W.proj / "config.json")) is not None else {}
            if _norm(key) in mk and r["exit"] is not None:
                want = str(mk[_norm(key)])
                if r["exit"] != 0 or r["stdout"].rstrip("\n") != want:
                    failures.append(_fail("accepted-but-different", "config-get", f"key={key} deferred", want=want, exit=r["exit"],
                                          got=r["stdout"][:200], stderr=r["stderr"][-300:], step=i))
        elif kind == "show":
            rel = ev["file"]
            r = R.cli((["--config", rel] if rel else []) + ["config", "show", "--format", ev["fmt"]])
        elif kind == "reset":
            rel = ev["file"]
            target = rel or "config.yaml"
            before = _read(_app_path(W, rel))
            r = R.cli((["--config", rel] if rel else []) + ["config", "reset", "--yes"])
            after = _read(_app_path(W, rel))
            if r["exit"] == 0:
                model[target] = {}
                note_write(target, "reset")
            elif r["exit"] is not None and before != after:
                failures.append(_fail("rejected-but-written", "config-reset", f"file={target}", exit=r["exit"], step=i))
        elif kind == "edit":
            p = W.proj / ev["file"]
            cur = _read(p)
            if cur is None:
                stats["edits_skipped"] += 1
            else:
                try:
                    new = apply_edit(cur.decode("utf-8"), ev["kind"], ev["p"])
                except UnicodeDecodeError:
                    new = None
                ok = False
                if new is not None and new != cur.decode("utf-8"):
                    doc, err = _parse_yaml_bytes(new.encode("utf-8"))
                    ok = err is None and isinstance(doc, dict)
                if ok:
                    with open(p, "wb") as f:
                        f.write(new.encode("utf-8"))
                    stats["edits_applied"] += 1
                    note_write(ev["file"], "user")
                    if ev["file"] in model and ev["kind"] in ("drop_section", "respell"):
                        # the user may have removed / renamed a key the model tracks
                        doc = doc or {}
                        model[ev["file"]] = {k: v for k, v in model[ev["file"]].items() if k in doc and doc[k] == v}
                else:
                    stats["edits_skipped"] += 1
        elif kind == "lint":
            cfg = ev["config"]
            if cfg and not (W.proj / cfg).exists():
                return
            argv = [ev["cmd"]] + (["--config", cfg] if cfg else []) + ["--format", "json", "src"]
            r = R.cli(argv)
            stats["lint_runs"] += 1


def _wrap_up(sc, stats, failures, file_digests):
    stats["trivial"] = stats["writes"] < 2
    stats["cmdseq_sig"] = digest(stats["cmds"])
    seen, uniq = set(), []
    for f in failures:
        if f["sig"] not in seen:
            seen.add(f["sig"])
            uniq.append(f)
    H = digest({"initial": sc["initial"], "events": sc["events"]})
    return {"failures": uniq, "stats": stats, "H": H, "C": digest(file_digests), "scenario": sc, "harness": None,
            "file_digests": file_digests}


def _do_faulty(R, W, ev, stats, model):
    """Probe only (the statement says nothing about I/O errors or crashes): inject a failing or
    interrupted write into one command and record what it left on disk. Never a VIOLATION."""
    kind = ev["ev"]
    if kind == "init":
        rel = ev["output"] or ".thailint.yaml"
        argv = ["init-config", "--non-interactive"] + (["--preset", ev["preset"]] if ev["preset"] else []) + \
               (["--force"] if ev["force"] else []) + (["--output", rel] if ev["output"] else [])
        os.makedirs((W.proj / rel).parent, exist_ok=True)
    elif kind == "set":
        rel = ev["file"] or "config.yaml"
        argv = (["--config", ev["file"]] if ev["file"] else []) + ["config", "set", "--", ev["key"], ev["value"]]
        os.makedirs((W.proj / rel).parent, exist_ok=True)
    else:
        rel = ev["file"] or "config.yaml"
        argv = (["--config", ev["file"]] if ev["file"] else []) + ["config", "reset", "--yes"]
        os.makedirs((W.proj / rel).parent, exist_ok=True)
    before = _read(W.proj / rel)
    r = R.cli(argv, write_fault=ev["write_fault"])
    after = _read(W.proj / rel)
    fired = sum(v for k, v in (r.get("counters") or {}).items() if k.startswith("fault.write_")) or (1 if r["exit"] is None and ev["write_fault"]["kind"] == "kill" else 0)
    if after == before:
        outcome = "file-unchanged"
    else:
        doc, err = _parse_yaml_bytes(after) if not rel.endswith(".json") else (None, None)
        if rel.endswith(".json"):
            try:
                doc = json.loads((after or b"").decode("utf-8"))
            except Exception as e:
                err = str(e)
        if err is not None or (before is not None and not after):
            outcome = "file-truncated-or-invalid"
        else:
            outcome = "file-rewritten-parseable"
    stats.setdefault("write_fault_probes", []).append({"cmd": kind, "kind": ev["write_fault"]["kind"], "fired": bool(fired),
                                                        "exit": r["exit"], "outcome": outcome, "had_content": before is not None})
    model.pop(rel, None)


def _do_init(R, W, ev, failures, stats, note_write, step, model=None):
    out = ev["output"] or ".thailint.yaml"
    path = W.proj / out
    before = _read(path)
    doc_before, err_before = _parse_yaml_bytes(before)
    valid_before = before is not None and err_before is None and isinstance(doc_before, dict)
    merging = before is not None and not ev["force"]
    eff_before = R.effective(out) if (merging and valid_before) else None
    argv = ["init-config", "--non-interactive"] + (["--preset", ev["preset"]] if ev["preset"] else []) + \
           (["--force"] if ev["force"] else []) + (["--output", out] if ev["output"] else [])
    if ev["output"]:
        os.makedirs(path.parent, exist_ok=True)
    r = R.cli(argv)
    after = _read(path)
    tag = "init-config" + ("-force" if ev["force"] else "-merge" if merging else "-create")
    if r["exit"] is None:
        failures.append(_fail("command-crashed", tag, f"exc={r['exc']}", stderr=r["stderr"][-300:], step=step))
        return
    if after != before:
        note_write(out, tag)
    if not merging and r["exit"] == 0 and model is not None:
        model.pop(out, None)      # --force / creation legitimately replaces whatever the file held
    if merging and valid_before:
        stats["merges"] += 1
        doc_after, err_after = _parse_yaml_bytes(after)
        if r["exit"] != 0:
            failures.append(_fail("merge-refused", tag, f"exit={r['exit']}", stderr=r["stderr"][-300:], stdout=r["stdout"][-300:], step=step))
            return
        if err_after is not None or not isinstance(doc_after, dict):
            failures.append(_fail("invalid-yaml", tag, "after-merge", error=err_after, before=before.decode("utf-8", "replace")[-600:],
                                  after=(after or b"").decode("utf-8", "replace")[-900:], step=step))
            return
        eff_after = R.effective(out)
        if "error" in (eff_before or {}) or "error" in eff_after:
            if "error" in eff_after and "error" not in (eff_before or {}):
                failures.append(_fail("invalid-yaml", tag, "loader-rejects-after-merge", error=eff_after["error"], step=step))
        else:
            b, a = eff_before["config"], eff_after["config"]
            for k in sorted(b):
                if k not in a or _canon(a[k]) != _canon(b[k]):
                    spelled = [str(x) for x in doc_before if _norm(x) == k]
                    if isinstance(b[k], str) and isinstance(a.get(k), str) and a[k].rstrip("\n") == b[k].rstrip("\n"):
                        dt = "final-block-scalar-trailing-newlines"
                    elif k in {_norm(x) for x in SECTIONS}:
                        dt = "spelling=" + ("hyphen" if any("-" in x for x in spelled) else "underscore" if "_" in k else "plain")
                    else:
                        dt = "non-linter-key"
                    failures.append(_fail("setting-lost", tag, dt, key=k, before=b[k], after=a.get(k, "<absent>"), step=step))
        added_raw = [k for k in doc_after if k not in doc_before]
        stats["merge_added"] += len(added_raw)
        norm_before = {_norm(k) for k in doc_before}
        for k in added_raw:
            if _norm(k) in norm_before:
                failures.append(_fail("extra-section", tag, "other-spelling-present", key=str(k), step=step))
            elif str(k) not in SECTIONS:
                failures.append(_fail("extra-section", tag, "not-a-linter-section", key=str(k), step=step))
        lost_raw = [k for k in doc_before if k not in doc_after]
        if lost_raw:
            failures.append(_fail("setting-lost", tag, "top-level-key-removed", keys=[str(k) for k in lost_raw], step=step))
        # idempotence: a second run changes no byte
        r2 = R.cli(argv)
        again = _read(path)
        if again != after:
            failures.append(_fail("not-idempotent", tag, "second-run-changed-file", exit=r2["exit"], step=step))
        else:
            # nothing is missing any more, so another preset has nothing to add either
            other = [p_ for p_ in ("strict", "standard", "lenient") if p_ != (ev["preset"] or "standard")][step % 2]
            argv3 = ["init-config", "--non-interactive", "--preset", other] + (["--output", out] if ev["output"] else [])
            r3 = R.cli(argv3)
            if _read(path) != after:
                failures.append(_fail("not-idempotent", tag, "run-with-other-preset-changed-file", exit=r3["exit"], preset=other, step=step))
    elif not merging:
        # creation / --force: the generated file parses and every linter command accepts it
        if r["exit"] != 0:
            failures.append(_fail("preset-rejected", tag, f"init-exit={r['exit']}", stderr=r["stderr"][-300:], step=step))
            return
        doc_after, err_after = _parse_yaml_bytes(after)
        preset = ev["preset"] or "standard"
        if err_after is not None or not isinstance(doc_after, dict):
            failures.append(_fail("invalid-yaml", tag, f"preset={preset}", error=err_after, step=step))
            return
        # acceptance is judged in a clean project that holds nothing but the sources and the generated
        # file: another config of this history (a user's, or one a write-fault probe damaged) must not
        # be blamed on the preset
        R.accept_n = getattr(R, "accept_n", 0) + 1
        adir = W.root / f"accept-{R.accept_n}"
        for rel, content in sorted(R.sc["project"].items()):
            W.write(rel, content, base=adir)
        with open(adir / ".thailint.yaml", "wb") as f:
            f.write(after)
        for cmd in ev["lint_cmds"]:
            lr = R.cli([cmd, "--config", ".thailint.yaml", "--format", "json", "src"], cwd=str(adir))
            stats["lint_runs"] += 1
            if lr["exit"] not in (0, 1):
                failures.append(_fail("preset-rejected", tag, f"preset={preset} linter={cmd}", exit=lr["exit"], stderr=lr["stderr"][-400:],
                                      stdout=lr["stdout"][-200:], step=step))


def _do_set(R, W, ev, failures, stats, note_write, model, step):
    rel, key, value = ev["file"], ev["key"], ev["value"]
    target = rel or "config.yaml"
    path = _app_path(W, rel)
    before = _read(path)
    if rel:
        os.makedirs(os.path.dirname(path), exist_ok=True)
    argv = (["--config", rel] if rel else []) + ["config", "set", "--", key, value]
    r = R.cli(argv)
    after = _read(path)
    if r["exit"] is None:
        failures.append(_fail("command-crashed", "config-set", f"exc={r['exc']}", stderr=r["stderr"][-300:], step=step))
        return
    must_reject = key in INVALID and value in INVALID[key]
    if r["exit"] != 0:
        stats["set_rejected"] += 1
        if after != before:
            failures.append(_fail("rejected-but-written", "config-set", f"key={key}", value=value, exit=r["exit"], existed=before is not None,
                                  stderr=r["stderr"][-300:], step=step))
        return
    stats["set_accepted"] += 1
    note_write(target, "config-set")
    if must_reject:
        failures.append(_fail("accepted-invalid", "config-set", f"key={key}", value=value, step=step))
        return
    tv = typed(value)
    if rel is None and before is None and target == "config.yaml" and "config.json" in model and _read(str(W.proj / "config.json")) is not None:
        model.setdefault(target, {}).update(model["config.json"])     # first existing default location was config.json
    model.setdefault(target, {})[_norm(key)] = tv
    g = R.cli((["--config", rel] if rel else []) + ["config", "get", "--", key])
    if g["exit"] != 0 or g["stdout"].rstrip("\n") != str(tv):
        failures.append(_fail("accepted-but-different", "config-get", f"key={'hyphenated' if '-' in key else 'validated' if key in VALID else 'free'}",
                              key=key, value=value, want=str(tv), exit=g["exit"], got=g["stdout"][:200], stderr=g["stderr"][-300:], step=step))
        model[target].pop(_norm(key), None)
    doc, err = (_parse_yaml_bytes(after) if not path.lower().endswith(".json") else (None, None))
    if path.lower().endswith(".json"):
        try:
            json.loads(after.decode("utf-8"))
        except Exception as e:
            err = str(e)
    if err is not None:
        failures.append(_fail("invalid-yaml", "config-set", f"file-kind={'json' if path.lower().endswith('.json') else 'yaml'}", error=err, value=value, step=step))
        return
    rt = R.roundtrip(rel)
    if "error" in rt:
        failures.append(_fail("roundtrip", "config-set", "load-or-save-failed", error=rt["error"], key=key, value=value, step=step))
    else:
        for ext in ("yaml", "json"):
            if rt[ext] != rt["orig"]:
                failures.append(_fail("roundtrip", "config-set", f"via={ext}", key=key, value=value, orig=rt["orig"][:400], back=rt[ext][:400], step=step))


# ----------------------------------------------------------------------------- shrinking

def shrink(sc: dict):
    evs = sc["events"]
    n = len(evs)
    size = max(1, n // 2)
    while size >= 1 and n > 1:
        for k in range(0, n, size):
            c = copy.deepcopy(sc)
            del c["events"][k:k + size]
            if c["events"]:
                yield c
        if size == 1:
            break
        size //= 2
    for rel in sorted(sc["initial"]):
        c = copy.deepcopy(sc)
        del c["initial"][rel]
        yield c
    for rel, content in sorted(sc["initial"].items()):
        if isinstance(content, str):
            lines = content.split("\n")
            # drop whole top-level blocks
            starts = [i for i, l in enumerate(lines) if l and not l[0].isspace()]
            for a, b in zip(starts, starts[1:] + [len(lines)]):
                c = copy.deepcopy(sc)
                c["initial"][rel] = "\n".join(lines[:a] + lines[b:])
                doc, err = _parse_yaml_bytes(c["initial"][rel].encode())
                if err is None and isinstance(doc, dict) and doc:
                    yield c
    for k, ev in enumerate(evs):
        if ev["ev"] == "init" and len(ev.get("lint_cmds", [])) > 1:
            for j in range(len(ev["lint_cmds"])):
                c = copy.deepcopy(sc)
                del c["events"][k]["lint_cmds"][j]
                yield c
    if sc.get("real_cli"):
        c = copy.deepcopy(sc)
        c["real_cli"] = False
        yield c


# ----------------------------------------------------------------------------- evidence

def _probe_summary(runs):
    from collections import Counter
    probes = [p for r in runs for p in r["stats"].get("write_fault_probes", [])]
    fired = [p for p in probes if p["fired"]]
    return {"write_faults_injected": len(probes), "write_faults_fired": len(fired),
            "by_kind": dict(Counter(p["kind"] for p in fired)),
            "outcomes": dict(Counter(f"{p['cmd']}:{p['outcome']}" for p in fired)),
            "user_file_left_truncated_or_invalid": sum(1 for p in fired if p["outcome"] == "file-truncated-or-invalid" and p["had_content"]),
            "note": "outside the statement (it promises nothing about I/O errors or crashes; src/config.py advertises atomic writes "
                    "but writes in place): counted, never a VIOLATION"}


def evidence(outputs: list[dict], tier: str, seed: int) -> dict:
    from collections import Counter
    runs = [r for o in outputs for r in o["runs"]]
    nontrivial = [r for r in runs if not r["stats"].get("trivial")]
    seqs = {r["stats"]["cmdseq_sig"] for r in nontrivial}
    pairs = Counter(p for r in runs for p in r["stats"]["pairs"])
    cmds = Counter(c for r in runs for c in r["stats"]["cmds"])
    states = {s for r in runs for s in r["stats"]["states"]}
    samples = [{"index": r["index"], "events": r["stats"]["cmds"], "writer_pairs": r["stats"]["pairs"]} for r in nontrivial[:3]]
    return {"coverage": {
        "evaluations": len(runs), "distinct_nontrivial": len(seqs),
        "rule": "one evaluation = one command history (5-16 events: init-config merge/create/force, config set/get/show/reset "
                "with valid and invalid values on 5 file targets, user edits that keep valid YAML, linter commands) against a "
                "reference model; non-trivial = >=2 writes to a config file; distinct = distinct event-kind sequences",
        "samples": samples or [{"note": "no non-trivial history"}],
        "event_kinds": dict(cmds), "writer_pairs_prev_to_next": dict(pairs.most_common(40)),
        "distinct_file_states": len(states),
        "merges_checked": sum(r["stats"]["merges"] for r in runs), "sections_added_by_merges": sum(r["stats"]["merge_added"] for r in runs),
        "config_set_accepted": sum(r["stats"]["set_accepted"] for r in runs), "config_set_rejected": sum(r["stats"]["set_rejected"] for r in runs),
        "user_edits_applied": sum(r["stats"]["edits_applied"] for r in runs), "user_edits_skipped": sum(r["stats"]["edits_skipped"] for r in runs),
        "linter_commands_run_on_config": sum(r["stats"]["lint_runs"] for r in runs),
        "traces_validated_against_impl": sum(r["stats"].get("real_cli_histories", 0) for r in runs),
        "exposure_probes": _probe_summary(runs),
        "simulated_events": sum(len(r["stats"]["cmds"]) for r in runs),
        "simulated_time": "not applicable: no clock in the code under test; reported as commands",
        "fault_kinds_fired": {"invalid_values_rejected": sum(r["stats"]["set_rejected"] for r in runs), "user_edits": sum(r["stats"]["edits_applied"] for r in runs)},
        "real_vs_stub": {"real": "src/cli (click commands), src/config.py, config_merge.py, PyYAML, real files on tmpfs, one process per command",
                         "stub": "stdout capture (CliRunner in a forked child; a sample re-run through real `python -m src.cli` subprocesses must leave byte-identical files), cwd/HOME placement, CONFIG_LOCATIONS recomputed as a fresh import would"},
    }, "assumptions": ["user edits always leave a valid YAML mapping, as the statement presupposes",
                       "the documented value conversion of `config set` (bool, int, float, else string) defines 'unchanged'"]}
