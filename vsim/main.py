"""vsim command line.

  main.py check <id> --tier quick|thorough     launcher: honours VERIF_SEED / VERIF_TIER
  main.py replay <path>                         re-execute a replay file in a fresh interpreter
  main.py batch ... / exec <path>               internal (run inside a batch interpreter)
  main.py selftest [--props ...]                determinism self-test
"""
from __future__ import annotations

import argparse
import json
import os
import sys
from pathlib import Path

HERE = Path(__file__).resolve().parent
sys.path.insert(0, str(HERE.parent))
_repo = os.environ.get("VERIF_REPO", "/repo")
if _repo not in sys.path:
    sys.path.insert(0, _repo)


def _zygote(prop_id):
    # Created at the top of main, outside any try/finally (see procs.py).
    from vsim.engine import PROPS
    from vsim.procs import Zygote
    from vsim.world import scratch_base
    log = scratch_base() / f"vsim-zygote-{os.getpid()}.log"
    return Zygote(preload=["vsim.boot", PROPS[prop_id]], stderr_path=str(log)), log


def cmd_batch(a):
    zy, log = _zygote(a.prop)
    from vsim.engine import parse_indices, run_batch
    rc = 0
    try:
        run_batch(a.prop, a.seed, a.tier, parse_indices(a.indices), a.out, zy)
    except BaseException:
        import traceback
        traceback.print_exc()
        rc = 3
    zy.close()
    if not os.environ.get("VSIM_KEEP"):
        try:
            os.unlink(log)
        except OSError:
            pass
    return rc


def cmd_mirror(a):
    """Serve scenarios from stdin under this interpreter's hash seed (C08 oracle 3)."""
    zy, log = _zygote(a.prop)
    import importlib

    from vsim.engine import PROPS
    prop = importlib.import_module(PROPS[a.prop])
    for line in sys.stdin:
        line = line.strip()
        if not line:
            continue
        try:
            sc = json.loads(line)
            sc["index"] = f"m{sc.get('index', 0)}"
            res = prop.execute_plain(zy, sc)
            out = {"H": res["H"], "C": res["C"], "step_results": res["step_results"], "harness": res.get("harness")}
        except BaseException as e:
            out = {"harness": f"{type(e).__name__}: {e}", "H": None, "C": None, "step_results": []}
        sys.stdout.write(json.dumps(out) + "\n")
        sys.stdout.flush()
    zy.close()
    try:
        os.unlink(log)
    except OSError:
        pass
    return 0


def cmd_exec(a):
    doc = json.loads(Path(a.path).read_text())
    prop_id = doc["property"]
    zy, log = _zygote(prop_id)
    import importlib

    from vsim.engine import PROPS
    prop = importlib.import_module(PROPS[prop_id])
    rc = 0
    try:
        res = prop.execute(zy, doc["scenario"])
        sigs = [f["sig"] for f in res["failures"]]
        for f in res["failures"]:
            print("FAILURE", f["sig"])
            if a.verbose:
                print(json.dumps(f.get("detail"), indent=1)[:4000])
        if doc["signature"] in sigs:
            print("REPRODUCED", doc["signature"])
            rc = 1
        else:
            print("NOT-REPRODUCED", doc["signature"])
    except BaseException:
        import traceback
        traceback.print_exc()
        rc = 3
    if hasattr(prop, "cleanup"):
        prop.cleanup()
    zy.close()
    try:
        os.unlink(log)
    except OSError:
        pass
    return rc


def cmd_replay(a):
    import subprocess

    from vsim.engine import batch_env, known_match, load_known
    doc = json.loads(Path(a.path).read_text())
    hs = doc["scenario"].get("hashseed", 0)
    cmd = [sys.executable, str(HERE / "main.py"), "exec", a.path] + (["-v"] if a.verbose else [])
    r = subprocess.run(cmd, env=batch_env(hs), capture_output=True, text=True)
    sys.stdout.write(r.stdout)
    sys.stderr.write(r.stderr)
    if "REPRODUCED " in r.stdout and "NOT-REPRODUCED" not in r.stdout:
        if known_match(doc["property"], doc["signature"], load_known()):
            print(f"KNOWN-FINDING: property={doc['property']} {doc['signature']}")
            return 0
        print(f"VIOLATION property={doc['property']} replay={a.path}")
        return 1
    return 0 if r.returncode == 0 else 2


def cmd_check(a):
    from vsim.engine import check
    tier = os.environ.get("VERIF_TIER") or a.tier
    if tier not in ("quick", "thorough"):
        tier = a.tier
    seed = int(os.environ.get("VERIF_SEED", "0") or 0)
    return check(a.prop, tier, seed)


def cmd_soak(a):
    """Run N scenarios and print every failure signature with its count (no verdict, no evidence)."""
    import shutil
    from collections import Counter

    from vsim.engine import launch
    os.environ.setdefault("VSIM_MIN_BUDGET", "0")
    os.environ.setdefault("VSIM_REPLAY_DIR", "/tmp/vsim-soak-replays")
    outs, herr, outdir = launch(a.prop, a.tier, a.seed, runs=a.runs, wall_limit=a.wall)
    c = Counter()
    first = {}
    for o in outs:
        for f in o["failures"]:
            c[f["sig"]] += f["count"]
            first.setdefault(f["sig"], f.get("replay"))
    for sig, n in sorted(c.items()):
        print(f"{n:6d}  {sig}  {first[sig]}")
    print(f"runs={sum(len(o['runs']) for o in outs)} signatures={len(c)} harness_errors={len(herr) + sum(len(o['harness']) for o in outs)}")
    for h in herr[:5]:
        print("HARNESS", json.dumps(h)[:800])
    for o in outs:
        for h in o["harness"][:2]:
            print("HARNESS", json.dumps(h)[:800])
    shutil.rmtree(outdir, ignore_errors=True)
    return 0


def cmd_selftest(a):
    from vsim.selftest import selftest
    return selftest(a.props.split(","), a.seeds)


def main():
    ap = argparse.ArgumentParser()
    sub = ap.add_subparsers(dest="cmd", required=True)
    p = sub.add_parser("check")
    p.add_argument("prop")
    p.add_argument("--tier", default="quick")
    p = sub.add_parser("batch")
    p.add_argument("prop")
    p.add_argument("--seed", type=int, default=0)
    p.add_argument("--tier", default="quick")
    p.add_argument("--indices", required=True)
    p.add_argument("--out", required=True)
    p = sub.add_parser("exec")
    p.add_argument("path")
    p.add_argument("-v", "--verbose", action="store_true")
    p = sub.add_parser("replay")
    p.add_argument("path")
    p.add_argument("-v", "--verbose", action="store_true")
    p = sub.add_parser("mirror")
    p.add_argument("prop")
    p = sub.add_parser("soak")
    p.add_argument("prop")
    p.add_argument("--runs", type=int, default=320)
    p.add_argument("--seed", type=int, default=1)
    p.add_argument("--tier", default="quick")
    p.add_argument("--wall", type=float, default=3 * 3600)
    p = sub.add_parser("selftest")
    p.add_argument("--props", default="C07,C08,C11,C20")
    p.add_argument("--seeds", type=int, default=48)
    a = ap.parse_args()
    return {"check": cmd_check, "batch": cmd_batch, "exec": cmd_exec, "replay": cmd_replay,
            "selftest": cmd_selftest, "soak": cmd_soak, "mirror": cmd_mirror}[a.cmd](a)


if __name__ == "__main__":
    import faulthandler
    faulthandler.enable()
    sys.exit(main())
